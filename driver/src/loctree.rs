//! vdriver loctree <file>  -> one JSON object {"errors":n,"tree":NODE}
//! NODE = {"k":kind,"l":[start line,start col,end line,end col],"n":name-or-null,"c":[NODE...]}
//! Parses the file as a module with the real lexer + parser and prints every source range the syntax tree carries
//! (imports, declarations, members, parameters, annotations, type parameters, patterns, statements, expressions,
//! every identifier with the name it spells), nested the way the syntax nests.
use samlang_ast::Location;
use samlang_ast::source::{self, annotation, expr, pattern};
use samlang_errors::ErrorSet;
use samlang_heap::Heap;

struct N {
  k: &'static str,
  l: Location,
  n: Option<String>,
  c: Vec<N>,
}

fn node(k: &'static str, l: Location, c: Vec<N>) -> N {
  N { k, l, n: None, c }
}

fn id(heap: &Heap, k: &'static str, i: &source::Id) -> N {
  N { k, l: i.loc, n: Some(i.name.as_str(heap).to_string()), c: vec![] }
}

fn targs(heap: &Heap, t: &annotation::TypeArguments) -> N {
  node("type-arguments", t.location, t.arguments.iter().map(|a| annot(heap, a)).collect())
}

fn annot_id(heap: &Heap, a: &annotation::Id) -> N {
  let mut c = vec![id(heap, "annotation-id-name", &a.id)];
  if let Some(t) = &a.type_arguments {
    c.push(targs(heap, t));
  }
  node("annotation-id", a.location, c)
}

fn annot(heap: &Heap, a: &annotation::T) -> N {
  match a {
    annotation::T::Primitive(l, _, k) => N { k: "annotation-primitive", l: *l, n: Some(k.kind_str().to_string()), c: vec![] },
    annotation::T::Id(a) => annot_id(heap, a),
    annotation::T::Generic(l, i) => node("annotation-generic", *l, vec![id(heap, "annotation-generic-name", i)]),
    annotation::T::Fn(f) => node(
      "annotation-fn",
      f.location,
      vec![
        node("annotation-fn-parameters", f.parameters.location, f.parameters.annotations.iter().map(|a| annot(heap, a)).collect()),
        annot(heap, &f.return_type),
      ],
    ),
  }
}

fn tparams(heap: &Heap, t: &annotation::TypeParameters) -> N {
  node(
    "type-parameters",
    t.location,
    t.parameters
      .iter()
      .map(|p| {
        let mut c = vec![id(heap, "type-parameter-name", &p.name)];
        if let Some(b) = &p.bound {
          c.push(annot_id(heap, b));
        }
        node("type-parameter", p.loc, c)
      })
      .collect(),
  )
}

fn tuple_pat(heap: &Heap, t: &pattern::TuplePattern<()>) -> N {
  node("pattern-tuple", t.location, t.elements.iter().map(|e| pat(heap, &e.pattern)).collect())
}

fn pat(heap: &Heap, p: &pattern::MatchingPattern<()>) -> N {
  match p {
    pattern::MatchingPattern::Tuple(t) => tuple_pat(heap, t),
    pattern::MatchingPattern::Object { location, elements, .. } => node(
      "pattern-object",
      *location,
      elements
        .iter()
        .map(|e| {
          let mut c = vec![id(heap, "pattern-field-name", &e.field_name)];
          if !e.shorthand {
            c.push(pat(heap, &e.pattern));
          }
          node("pattern-field", e.loc, c)
        })
        .collect(),
    ),
    pattern::MatchingPattern::Variant(v) => {
      let mut c = vec![id(heap, "pattern-variant-tag", &v.tag)];
      if let Some(d) = &v.data_variables {
        c.push(tuple_pat(heap, d));
      }
      node("pattern-variant", v.loc, c)
    }
    pattern::MatchingPattern::Id(i, _) => id(heap, "pattern-id", i),
    pattern::MatchingPattern::Wildcard { location, .. } => N { k: "pattern-wildcard", l: *location, n: Some("_".to_string()), c: vec![] },
    pattern::MatchingPattern::Or { location, patterns } => node("pattern-or", *location, patterns.iter().map(|p| pat(heap, p)).collect()),
  }
}

fn block(heap: &Heap, b: &expr::Block<()>) -> N {
  let mut c = vec![];
  for s in &b.statements {
    match s {
      expr::Statement::Declaration(d) => {
        let mut dc = vec![pat(heap, &d.pattern)];
        if let Some(a) = &d.annotation {
          dc.push(annot(heap, a));
        }
        dc.push(expression(heap, &d.assigned_expression));
        c.push(node("statement-let", d.loc, dc));
      }
      expr::Statement::Expression(e) => c.push(expression(heap, e)),
    }
  }
  if let Some(e) = &b.expression {
    c.push(expression(heap, e));
  }
  node("block", b.common.loc, c)
}

fn if_else(heap: &Heap, e: &expr::IfElse<()>) -> N {
  let mut c = vec![];
  match e.condition.as_ref() {
    expr::IfElseCondition::Expression(x) => c.push(expression(heap, x)),
    expr::IfElseCondition::Guard(p, x) => {
      c.push(pat(heap, p));
      c.push(expression(heap, x));
    }
  }
  c.push(block(heap, &e.e1));
  match e.e2.as_ref() {
    expr::IfElseOrBlock::IfElse(x) => c.push(if_else(heap, x)),
    expr::IfElseOrBlock::Block(b) => c.push(block(heap, b)),
  }
  node("if-else", e.common.loc, c)
}

fn expr_list(heap: &Heap, k: &'static str, l: &expr::ParenthesizedExpressionList<()>) -> N {
  node(k, l.loc, l.expressions.iter().map(|e| expression(heap, e)).collect())
}

fn expression(heap: &Heap, e: &expr::E<()>) -> N {
  match e {
    expr::E::Literal(c, l) => {
      let n = match l {
        source::Literal::Bool(b) => Some(b.to_string()),
        source::Literal::Int(_) => None,
        source::Literal::String(_) => None,
      };
      N { k: "literal", l: c.loc, n, c: vec![] }
    }
    expr::E::LocalId(c, i) => node("local-id", c.loc, vec![id(heap, "local-id-name", i)]),
    expr::E::ClassId(c, _, i) => node("class-id", c.loc, vec![id(heap, "class-id-name", i)]),
    expr::E::Tuple(c, l) => node("tuple", c.loc, vec![expr_list(heap, "tuple-elements", l)]),
    expr::E::FieldAccess(f) => {
      let mut c = vec![expression(heap, &f.object), id(heap, "field-name", &f.field_name)];
      if let Some(t) = &f.explicit_type_arguments {
        c.push(targs(heap, t));
      }
      node("field-access", f.common.loc, c)
    }
    expr::E::MethodAccess(f) => {
      let mut c = vec![expression(heap, &f.object), id(heap, "method-name", &f.method_name)];
      if let Some(t) = &f.explicit_type_arguments {
        c.push(targs(heap, t));
      }
      node("method-access", f.common.loc, c)
    }
    expr::E::Unary(u) => node("unary", u.common.loc, vec![expression(heap, &u.argument)]),
    expr::E::Call(c) => node("call", c.common.loc, vec![expression(heap, &c.callee), expr_list(heap, "call-arguments", &c.arguments)]),
    expr::E::Binary(b) => node("binary", b.common.loc, vec![expression(heap, &b.e1), expression(heap, &b.e2)]),
    expr::E::IfElse(x) => if_else(heap, x),
    expr::E::Match(m) => {
      let mut c = vec![expression(heap, &m.matched)];
      for case in &m.cases {
        c.push(node("match-arm", case.loc, vec![pat(heap, &case.pattern), expression(heap, &case.body)]));
      }
      node("match", m.common.loc, c)
    }
    expr::E::Lambda(l) => {
      let mut pc = vec![];
      for p in &l.parameters.parameters {
        pc.push(id(heap, "lambda-parameter-name", &p.name));
        if let Some(a) = &p.annotation {
          pc.push(annot(heap, a));
        }
      }
      node("lambda", l.common.loc, vec![node("lambda-parameters", l.parameters.loc, pc), expression(heap, &l.body)])
    }
    expr::E::Block(b) => block(heap, b),
  }
}

fn member_decl(heap: &Heap, d: &source::ClassMemberDeclaration, body: Option<&expr::E<()>>) -> N {
  let mut c = vec![id(heap, "member-name", &d.name)];
  if let Some(t) = &d.type_parameters {
    c.push(tparams(heap, t));
  }
  let mut pc = vec![];
  for p in d.parameters.parameters.iter() {
    pc.push(id(heap, "parameter-name", &p.name));
    pc.push(annot(heap, &p.annotation));
  }
  c.push(node("parameters", d.parameters.location, pc));
  c.push(annot(heap, &d.return_type));
  if let Some(b) = body {
    // the range of a member definition runs from its first keyword to the end of its body
    c.push(expression(heap, b));
    return node("member", d.loc, c);
  }
  node("member-declaration", d.loc, c)
}

fn toplevel(heap: &Heap, t: &source::Toplevel<()>) -> N {
  match t {
    source::Toplevel::Interface(i) => {
      let mut c = vec![id(heap, "interface-name", &i.name)];
      if let Some(tp) = &i.type_parameters {
        c.push(tparams(heap, tp));
      }
      if let Some(x) = &i.extends_or_implements_nodes {
        c.push(node("extends", x.location, x.nodes.iter().map(|a| annot_id(heap, a)).collect()));
      }
      c.push(node("members", i.members.loc, i.members.members.iter().map(|m| member_decl(heap, m, None)).collect()));
      node("interface", i.loc, c)
    }
    source::Toplevel::Class(i) => {
      let mut c = vec![id(heap, "class-name", &i.name)];
      // the parser makes the range of a type definition start at the type parameters, so they nest inside it
      let mut inner: Vec<N> = vec![];
      if let Some(tp) = &i.type_parameters {
        if i.type_definition.is_some() {
          inner.push(tparams(heap, tp));
        } else {
          c.push(tparams(heap, tp));
        }
      }
      match &i.type_definition {
        Some(source::TypeDefinition::Struct { loc, fields, .. }) => {
          let mut fc = std::mem::take(&mut inner);
          for f in fields {
            fc.push(id(heap, "field-definition-name", &f.name));
            fc.push(annot(heap, &f.annotation));
          }
          c.push(node("struct-definition", *loc, fc));
        }
        Some(source::TypeDefinition::Enum { loc, variants, .. }) => {
          let mut vc = std::mem::take(&mut inner);
          for v in variants {
            vc.push(id(heap, "variant-definition-name", &v.name));
            if let Some(d) = &v.associated_data_types {
              vc.push(node("variant-data", d.location, d.annotations.iter().map(|a| annot(heap, a)).collect()));
            }
          }
          c.push(node("enum-definition", *loc, vc));
        }
        None => {}
      }
      if let Some(x) = &i.extends_or_implements_nodes {
        c.push(node("implements", x.location, x.nodes.iter().map(|a| annot_id(heap, a)).collect()));
      }
      c.push(node("members", i.members.loc, i.members.members.iter().map(|m| member_decl(heap, &m.decl, Some(&m.body))).collect()));
      node("class", i.loc, c)
    }
  }
}

fn js(out: &mut String, n: &N) {
  out.push_str(&format!(
    "{{\"k\":\"{}\",\"l\":[{},{},{},{}],\"n\":",
    n.k,
    n.l.start.0 as i64,
    n.l.start.1 as i64,
    n.l.end.0 as i64,
    n.l.end.1 as i64
  ));
  match &n.n {
    Some(s) => out.push_str(&crate::dump::json_str(s)),
    None => out.push_str("null"),
  }
  out.push_str(",\"c\":[");
  for (i, c) in n.c.iter().enumerate() {
    if i > 0 {
      out.push(',');
    }
    js(out, c);
  }
  out.push_str("]}");
}

pub fn loctree_cmd(args: &[String]) {
  let heap = &mut Heap::new();
  let text = std::fs::read_to_string(&args[0]).expect("readable source");
  let mr = heap.alloc_module_reference_from_string_vec(vec!["E".to_string()]);
  let mut error_set = ErrorSet::new();
  let m = samlang_parser::parse_source_module_from_text(&text, mr, heap, &mut error_set);
  let mut c = vec![];
  for i in &m.imports {
    let mut ic: Vec<N> = i.imported_members.iter().map(|x| id(heap, "imported-name", x)).collect();
    ic.push(node("imported-module", i.imported_module_loc, vec![]));
    c.push(node("import", i.loc, ic));
  }
  for t in &m.toplevels {
    c.push(toplevel(heap, t));
  }
  let lines: Vec<&str> = text.split('\n').collect();
  let mut whole = Location::document_start(mr);
  whole.end = samlang_ast::Position((lines.len() - 1) as u32, lines[lines.len() - 1].len() as u32);
  let root = node("module", whole, c);
  let mut out = String::new();
  js(&mut out, &root);
  println!("{{\"errors\":{},\"tree\":{}}}", error_set.errors().len(), out);
}
