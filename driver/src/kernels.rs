use samlang_optimization::verif_hooks::{ccp, lao, lia};
use std::io::BufRead;

fn opt_i32(r: Result<Option<i32>, String>) -> String {
  match r {
    Err(e) => format!("{{\"panic\":true,\"msg\":\"{}\"}}", e),
    Ok(None) => "{\"panic\":false,\"some\":false}".to_string(),
    Ok(Some(v)) => format!("{{\"panic\":false,\"some\":true,\"v\":[{}]}}", v),
  }
}

fn plie(p: (bool, i32)) -> String {
  format!("{},{}", p.0 as i32, p.1)
}

pub fn serve() {
  let stdin = std::io::stdin();
  for line in stdin.lock().lines() {
    let line = line.unwrap();
    let mut it = line.split_whitespace();
    let Some(name) = it.next() else { continue };
    let a: Vec<i64> = it.map(|s| s.parse::<i64>().unwrap()).collect();
    let g = |i: usize| a[i] as i32;
    let out = match name {
      "evaluate_bin_op" => opt_i32(ccp::eval_bin_op(a[0] as u8, g(1), g(2))),
      "merge_binary_expression" => match ccp::merge_bin(a[0] as u8, a[1] as u8, g(2), g(3)) {
        Err(e) => format!("{{\"panic\":true,\"msg\":\"{}\"}}", e),
        Ok(None) => "{\"panic\":false,\"some\":false}".to_string(),
        Ok(Some((op, c))) => format!("{{\"panic\":false,\"some\":true,\"v\":[{},{}]}}", op, c),
      },
      "iterations" => opt_i32(lao::iterations(g(0), g(1), a[2] as u8, g(3))),
      "guard_invert" => match lia::guard_invert(a[0] as u8) {
        Ok(v) => format!("{{\"panic\":false,\"some\":true,\"v\":[{}]}}", v),
        Err(e) => format!("{{\"panic\":true,\"msg\":\"{}\"}}", e),
      },
      "get_guard_operator" => match lia::guard_operator_of(a[0] as u8, a[1] != 0) {
        Ok(Some(v)) => format!("{{\"panic\":false,\"some\":true,\"v\":[{}]}}", v),
        Ok(None) => "{\"panic\":false,\"some\":false}".to_string(),
        Err(e) => format!("{{\"panic\":true,\"msg\":\"{}\"}}", e),
      },
      "merge_invariant" => match lia::merge_invariant(a[0] as u8, a[1] != 0, g(2), a[3] != 0, g(4)) {
        Ok(Some(p)) => format!("{{\"panic\":false,\"some\":true,\"v\":[{}]}}", plie(p)),
        Ok(None) => "{\"panic\":false,\"some\":false}".to_string(),
        Err(e) => format!("{{\"panic\":true,\"msg\":\"{}\"}}", e),
      },
      "merge_const_op" => {
        match lia::merge_const_op(a[0] != 0, g(1), a[2] != 0, g(3), a[4] != 0, a[5] != 0, g(6)) {
          Ok(Some((m, i))) => format!("{{\"panic\":false,\"some\":true,\"v\":[{},{}]}}", plie(m), plie(i)),
          Ok(None) => "{\"panic\":false,\"some\":false}".to_string(),
          Err(e) => format!("{{\"panic\":true,\"msg\":\"{}\"}}", e),
        }
      }
      _ => "{\"error\":\"unknown kernel\"}".to_string(),
    };
    println!("{}", out);
  }
}

fn json_str(s: &str) -> String {
  let mut o = String::from("\"");
  for c in s.chars() {
    match c {
      '"' => o.push_str("\\\""),
      '\\' => o.push_str("\\\\"),
      '\n' => o.push_str("\\n"),
      c => o.push(c),
    }
  }
  o.push('"');
  o
}

/// One JSON line per BinaryOperator: discriminant, name, emitted WAT, emitted TS.
pub fn optable() {
  for op in ccp::ALL_OPS.iter() {
    println!(
      "{{\"discr\":{},\"name\":{},\"wat\":{},\"ts\":{}}}",
      *op as u8,
      json_str(op.as_str()),
      json_str(&samlang_ast::wasm::verif_harness::binary_wat(*op)),
      json_str(&samlang_ast::lir::verif_harness::binary_ts(*op)),
    );
  }
  println!("{{\"not_ts\":{}}}", json_str(&samlang_ast::lir::verif_harness::not_ts()));
  for op in [samlang_ast::hir::BinaryOperator::EQ, samlang_ast::hir::BinaryOperator::NE] {
    println!(
      "{{\"ref_cmp\":{},\"ts_literal\":{},\"ts_vars\":{},\"wat\":{}}}",
      json_str(op.as_str()),
      json_str(&samlang_ast::lir::verif_harness::ref_cmp_ts(op)),
      json_str(&samlang_ast::lir::verif_harness::ref_cmp_vars_ts(op)),
      json_str(&samlang_ast::wasm::verif_harness::ref_cmp_wat(op)),
    );
  }
}
