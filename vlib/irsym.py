"""E-T: symbolic execution of samlang's MIR / LIR (JSON snapshots written by the native driver
from the real pipeline) and solver-checked equivalence of two snapshots of the same function.

Values
  Int(term)                  32-bit bit-vector (booleans are ints)
  I31(term)                  i31 reference (payload term)
  Obj(type, fields)          struct allocated during this execution (immutable)
  Str(content)               string constant
  Fn(name)                   function pointer (LIR) / closure code (MIR closures are Obj(type,[Fn,ctx]))
  Sym(key, static_type)      unknown reference: argument, field of an unknown object, result of an
                             un-entered call.  Keys are access paths ("a0", "a0.f1", "ev3:_Str$concat"),
                             so the two executions share every lazily created fact through `World`.
  Poison(name)               read of a variable that was never assigned on this path

Observables: ordered list of events (builtin / un-entered calls with their argument values), the
outcome kind (return / panic / trap / bound) and the returned value.
"""
import itertools
import json
import re
import time

import z3

BV = lambda v: z3.BitVecVal(v, 32)
INT_MIN = -(1 << 31)


class Unsupported(Exception):
    pass


class Budget(Exception):
    pass


_ESCAPES = {"t": "\t", "n": "\n", "r": "\r", "0": "\0", "b": "\b", "f": "\f", "v": "\v"}


def resolve_escapes(raw, javascript=False):
    """the text a string literal denotes.  The IRs carry literals with their escape sequences intact (the parser only
    resolves `\\"`); both back ends resolve them - JavaScript when it reads the template literal, the WebAssembly
    lowering when it fills the data segment - so string VALUES are compared in resolved form.  `javascript`: the text
    of a template literal (`\\x00`, an escaped backtick or dollar sign may occur in addition)."""
    out = []
    i = 0
    n = len(raw)
    while i < n:
        c = raw[i]
        if c != "\\" or i + 1 >= n:
            out.append(c)
            i += 1
            continue
        d = raw[i + 1]
        if javascript and d == "x" and i + 3 < n:
            out.append(chr(int(raw[i + 2:i + 4], 16)))
            i += 4
            continue
        out.append(_ESCAPES.get(d, d))
        i += 2
    return "".join(out)


class Int:
    __slots__ = ("t", "jsbool")

    def __init__(self, t, jsbool=False):
        self.t = t
        # JavaScript only: the value is a boolean (`!x`), not the number 0 / 1.  It behaves like the number everywhere
        # except under strict equality with a number
        self.jsbool = jsbool

    def __repr__(self):
        return "Int(%s)" % self.t


class I31:
    __slots__ = ("t",)

    def __init__(self, t):
        self.t = t

    def __repr__(self):
        return "I31(%s)" % self.t


class Obj:
    __slots__ = ("ty", "fields")

    def __init__(self, ty, fields):
        self.ty = ty
        self.fields = fields

    def __repr__(self):
        return "Obj(%s,%s)" % (self.ty, self.fields)


class Str:
    __slots__ = ("s",)

    def __init__(self, s):
        self.s = s

    def __repr__(self):
        return "Str(%r)" % self.s


class Fn:
    __slots__ = ("name",)

    def __init__(self, name):
        self.name = name

    def __repr__(self):
        return "Fn(%s)" % self.name


class Sym:
    __slots__ = ("key", "ty")

    def __init__(self, key, ty):
        self.key = key
        self.ty = ty

    def __repr__(self):
        return "Sym(%s)" % self.key


class Poison:
    __slots__ = ("name",)

    def __init__(self, name):
        self.name = name

    def __repr__(self):
        return "Poison(%s)" % self.name


BUILTIN_PREFIXES = ("__Process$", "__Str$", "__Vec$", "__$")


def is_builtin(name):
    return name.startswith(BUILTIN_PREFIXES)


class Prog:
    def __init__(self, js):
        self.ir = js["ir"]
        self.fns = {f["name"]: f for f in js["functions"]}
        self.types = {t["name"]: t for t in js["types"]}
        self.parent = {t["name"]: t.get("parent") for t in js["types"] if t.get("parent")}
        # enum (sum) types: a value of such a type may be an i31, a boxed variant (subtype struct) or an unboxed
        # payload object, so a cast *to* it never fails
        self.enum_types = {t["name"] for t in js["types"] if t.get("kind") == "enum" or t.get("extensible")}
        self.mains = js["mains"]
        self.globals = js["globals"]

    def parent_of(self, t):
        p = self.parent.get(t)
        if p is None and isinstance(t, str):
            m = re.match(r"^(.*)\$_Sub\d+$", t)     # boxed-variant subtypes are named <Enum>$_Sub<k>
            if m:
                return m.group(1)
        return p

    def is_subtype(self, t, of):
        while t is not None:
            if t == of:
                return True
            t = self.parent_of(t)
        return False


class World:
    """facts about unknown objects, shared by the two executions of one comparison"""

    def __init__(self):
        self.fields = {}
        self.bools = {}
        self.fresh = {}
        self.axioms = []          # global facts relating the type tests of one object
        self.typefacts = {}       # object key -> {type name: Bool}
        self.is_subtype = None    # set by the comparison (type hierarchy of the program)
        self.ev_types = {}        # event key -> result type declared on the reference side
        self.types = None         # MIR type definitions (set to constrain unknown values to well-formed ones)
        self._wf_done = set()
        self.refeqs = {}          # object key -> [(other key, Bool)]: possible identities between unknown objects
        self.loose_views = False

    def refeq(self, ka, kb):
        """possible identity of two unknown objects.  samlang structs are immutable, so a struct is allocated after
        everything it points to: an object is never identical to one reached from it through fields.  Identical
        objects pass the same type tests and hold the same integers."""
        if ka == kb:
            return z3.BoolVal(True)
        for x, y in ((ka, kb), (kb, ka)):
            if y.startswith(x + "@") or y.startswith(x + ".f"):
                return z3.BoolVal(False)
        ka, kb = sorted([ka, kb])
        name = "refeq!S:%s!S:%s" % (ka, kb)
        if name in self.bools:
            return self.bools[name]
        b = self.fact(name)
        self.refeqs.setdefault(ka, []).append((kb, b))
        self.refeqs.setdefault(kb, []).append((ka, b))
        for x, y in ((ka, kb), (kb, ka)):
            for t in list(self.typefacts.get(x, {})):
                fx = self.fact("isi31!%s" % x if t == "#i31" else "isptr!%s!%s" % (x, t))
                fy = self.fact("isi31!%s" % y if t == "#i31" else "isptr!%s!%s" % (y, t))
                self.axioms.append(z3.Implies(b, fx == fy))
            for (k, view, idx), v in list(self.fields.items()):
                if k == x and isinstance(v, Int):
                    o = self.field(Sym(y, None), idx, "int", view)
                    self.axioms.append(z3.Implies(b, v.t == o.t))
        self.axioms.append(z3.Implies(b, z3.BitVec(ka + "#i31val", 32) == z3.BitVec(kb + "#i31val", 32)))
        return b

    def field(self, sym, idx, ty, view=None):
        """field `idx` of an unknown object seen through static type `view` (views of unrelated types are
        different run-time shapes of the same reference and never hold at once)"""
        if self.loose_views:
            # comparing typed LIR with the untyped TypeScript printed from it: an object has one shape, so a slot is
            # identified by its index (and whether an integer or a reference is read from it), not by a static type
            view = "*int" if ty == "int" else "*ref"
        k = (sym.key, view, idx)
        if k not in self.fields:
            suffix = "" if view is None else "@" + view
            self.fields[k] = self.mk("%s%s.f%d" % (sym.key, suffix, idx), ty)
            if ty == "int":
                for other, b in self.refeqs.get(sym.key, ()):
                    o = self.field(Sym(other, None), idx, "int", view)
                    self.axioms.append(z3.Implies(b, self.fields[k].t == o.t))
        return self.fields[k]

    def mk(self, key, ty):
        if ty == "int":
            return Int(z3.BitVec(key, 32))
        if ty == "i31":
            return I31(z3.BitVec(key + "#i31", 32))
        v = Sym(key, ty)
        if self.types is not None and key not in self._wf_done:
            self._wf_done.add(key)
            self.well_formed(v)
        return v

    def well_formed(self, sym):
        """an unknown value of a declared MIR type is one of the representations the type definition allows:
        a data-free variant k is the i31 k, a boxed variant k is an instance of <T>$_Sub<k> whose tag slot is
        2k+1, an unboxed variant is an instance of its payload type; a struct value is an instance of the struct"""
        t = self.types.get(sym.ty) if isinstance(sym.ty, str) else None
        if t is None:
            return
        if "kind" not in t:
            # LIR type table: an extensible type is an enum; its boxed variant k is the subtype <T>$_Sub<k> whose tag
            # slot holds 2k + 1.  (Unboxed variants are not described at this level, so no closed-world disjunction.)
            if not t.get("extensible"):
                return
            tag = self.field(sym, 0, "int", "#tag")
            not31 = z3.Not(self.fact("isi31!%s" % sym.key))
            for name, sub in self.types.items():
                m_ = re.match(re.escape(sym.ty) + r"\$_Sub(\d+)$", name)
                if m_ and sub.get("parent") == sym.ty:
                    k = int(m_.group(1))
                    is_sub = self.fact("isptr!%s!%s" % (sym.key, name))
                    self.axioms.append(z3.Implies(is_sub, z3.And(not31, tag.t == BV(2 * k + 1))))
                    self.axioms.append(z3.Implies(z3.And(not31, self.fact("isptr!%s!%s" % (sym.key, sym.ty)), tag.t == BV(2 * k + 1)), is_sub))
            return
        if t.get("kind") == "struct":
            self.axioms.append(self.fact("isptr!%s!%s" % (sym.key, sym.ty)))
            return
        if t.get("kind") != "enum" or not t.get("variants"):
            return
        alts = []
        for k, var in enumerate(t["variants"]):
            if var["k"] == "int31":
                payload = z3.SignExt(1, z3.Extract(30, 0, z3.BitVec(sym.key + "#i31val", 32)))
                alts.append(z3.And(self.fact("isi31!%s" % sym.key), payload == BV(k)))
            elif var["k"] == "boxed":
                tag = self.field(sym, 0, "int", "#tag")
                alts.append(z3.And(self.fact("isptr!%s!%s$_Sub%d" % (sym.key, sym.ty, k)), tag.t == BV(2 * k + 1)))
            else:
                alts.append(self.fact("isptr!%s!%s" % (sym.key, var["t"])))
        self.axioms.append(z3.Or(*alts))

    def fact(self, key):
        if key not in self.bools:
            self.bools[key] = z3.Bool(key)
            self._relate(key, self.bools[key])
        return self.bools[key]

    def _relate(self, key, b):
        """type tests of one object are not independent: a subtype test implies the supertype test, tests for
        unrelated struct types exclude each other, and an i31 is no struct at all"""
        if key.startswith("isptr!"):
            _, obj, ty = key.split("!", 2)
            facts = self.typefacts.setdefault(obj, {})
            for t2, b2 in facts.items():
                if t2 == "#i31":
                    self.axioms.append(z3.Not(z3.And(b, b2)))
                elif self.is_subtype is not None:
                    if self.is_subtype(ty, t2):
                        self.axioms.append(z3.Implies(b, b2))
                    elif self.is_subtype(t2, ty):
                        self.axioms.append(z3.Implies(b2, b))
                    else:
                        self.axioms.append(z3.Not(z3.And(b, b2)))
            facts[ty] = b
            for other, eq in self.refeqs.get(obj, ()):
                self.axioms.append(z3.Implies(eq, b == self.fact("isptr!%s!%s" % (other, ty))))
        elif key.startswith("isi31!"):
            obj = key.split("!", 1)[1]
            facts = self.typefacts.setdefault(obj, {})
            for t2, b2 in facts.items():
                if t2 != "#i31":
                    self.axioms.append(z3.Not(z3.And(b, b2)))
            facts["#i31"] = b
            for other, eq in self.refeqs.get(obj, ()):
                self.axioms.append(z3.Implies(eq, b == self.fact("isi31!%s" % other)))


def vkey(v):
    if isinstance(v, Sym):
        return "S:" + v.key
    if isinstance(v, Str):
        return "T:" + v.s
    if isinstance(v, Fn):
        return "F:" + v.name
    if isinstance(v, I31):
        return "I:" + str(v.t)
    if isinstance(v, Obj):
        return "O:%d" % id(v)
    return "?:%d" % id(v)


class State:
    __slots__ = ("env", "pc", "trace", "stack", "frames", "steps", "forks", "late", "model", "entered", "known")

    def copy(self):
        s = State()
        s.env = dict(self.env)
        s.pc = list(self.pc)
        s.trace = list(self.trace)
        s.stack = list(self.stack)
        s.frames = list(self.frames)
        s.steps = self.steps
        s.forks = self.forks
        s.late = self.late
        s.model = self.model
        s.entered = self.entered
        s.known = set(self.known)
        return s


class Path:
    def __init__(self, pc, trace, outcome, value=None, why=None, model=None):
        self.model = model
        self.pc = pc
        self.trace = trace
        self.outcome = outcome
        self.value = value
        self.why = why


class Exec:
    def __init__(self, prog, world, role, enter_calls=False, bounds=None, solver=None):
        self.p = prog
        self.w = world
        self.role = role            # "ref": overflow / div-by-zero runs are assumed away; "new": they trap / wrap
        self.enter = enter_calls
        b = bounds or {}
        self.max_forks = b.get("forks", 14)        # symbolic branch decisions per path
        self.max_steps = b.get("steps", 6000)      # statements per path (concrete loops included)
        self.max_paths = b.get("paths", 400)
        self.max_depth = b.get("depth", 3)
        self.solver = solver or z3.Solver()
        self.solver.set("timeout", 10000)
        self.queries = 0
        self.paths = []
        self.deadline = None
        self.rng = None
        self.merge_pure = False
        self.check_indirect_sigs = False
        self.ref_div_traps = False     # the reference side's division traps are outcomes, not assumed away
        self._pure_cache = {}

    # ------------------------------------------------------------------ solver
    def feasible(self, pc):
        """-> a model if satisfiable else None"""
        self.queries += 1
        if self.deadline is not None and time.time() > self.deadline:
            raise Budget("time budget")
        self.solver.push()
        self.solver.add(*pc)
        if self.w.axioms:
            self.solver.add(*self.w.axioms)
        r = self.solver.check()
        m = self.solver.model() if r == z3.sat else None
        self.solver.pop()
        if r == z3.unknown:
            raise Budget("solver unknown on a feasibility query")
        return m

    # ------------------------------------------------------------------ expressions
    def ev(self, e, st):
        if "i" in e:
            return Int(BV(e["i"]))
        if "i31" in e:
            return I31(BV(e["i31"]))
        if "s" in e:
            return Str(resolve_escapes(e["s"]))
        if "fn" in e:
            return Fn(e["fn"])
        n = e["v"]
        if n in st.env:
            v = st.env[n]
            t = e.get("t")
            if self.p.ir == "lir" and isinstance(v, Sym) and isinstance(t, dict) and "id" in t \
                    and v.ty != t["id"] and not (isinstance(v.ty, str) and self.p.is_subtype(v.ty, t["id"])):
                # LIR types are erased at function boundaries (`any`), uses carry the precise type and the WASM
                # lowering inserts a cast from it.  On the reference side the annotation is taken as true.
                if self.role == "ref":
                    st.pc.append(self.w.fact("isptr!%s!%s" % (v.key, t["id"])))
                    st.model = None
                    if self.w.types is not None and (v.key, t["id"]) not in self.w._wf_done:
                        # typed comparison: the value is a well-formed value of the type it is used at
                        self.w._wf_done.add((v.key, t["id"]))
                        self.w.well_formed(Sym(v.key, t["id"]))
                return Sym(v.key, t["id"])
            return v
        return Poison(n)

    def as_int(self, v, what):
        if isinstance(v, Int):
            return v.t
        if isinstance(v, Poison):
            # WASM locals are zero initialised, TS would not even compile: modelled as an arbitrary value so that
            # any dependence of the observables on it is flagged
            return z3.BitVec("poison!%s!%s" % (self.role, v.name), 32)
        raise Unsupported("%s on a non-integer value %r" % (what, v))

    def ref_eq(self, a, b):
        """z3 Bool: reference identity / i31 equality"""
        if isinstance(a, Int) and isinstance(b, Int):
            return a.t == b.t
        if isinstance(a, I31) and isinstance(b, I31):
            return a.t == b.t
        for x, y in ((a, b), (b, a)):
            if isinstance(x, Int) and isinstance(y, I31):
                # a JavaScript number against an i31: the TypeScript back end writes the i31 k as the number 2k + 1
                return x.t == y.t * BV(2) + BV(1)
        if a is b:
            return z3.BoolVal(True)
        for x, y in ((a, b), (b, a)):
            if isinstance(x, Sym) and isinstance(y, Sym) and x.key == y.key:
                return z3.BoolVal(True)
        if isinstance(a, Str) and isinstance(b, Str):
            # identical literals are one global; distinct literals are distinct objects
            return z3.BoolVal(a.s == b.s)
        for x, y in ((a, b), (b, a)):
            if isinstance(x, Sym) and isinstance(y, I31):
                # an unknown reference equals an i31 iff it is an i31 with that payload
                return z3.And(self.w.fact("isi31!%s" % x.key),
                              z3.SignExt(1, z3.Extract(30, 0, z3.BitVec(x.key + "#i31val", 32))) == y.t)
        if isinstance(a, Fn) and isinstance(b, Fn):
            return z3.BoolVal(a.name == b.name)
        conc = (Obj, Str, Fn)
        if isinstance(a, Obj) and isinstance(b, Obj):
            return z3.BoolVal(False)     # two allocations (a is b handled above)
        if (isinstance(a, Obj) and isinstance(b, (Str, Fn, I31))) or (isinstance(b, Obj) and isinstance(a, (Str, Fn, I31))):
            return z3.BoolVal(False)
        if (isinstance(a, I31) and isinstance(b, conc)) or (isinstance(b, I31) and isinstance(a, conc)):
            return z3.BoolVal(False)
        if isinstance(a, Obj) or isinstance(b, Obj):
            # a fresh allocation is never identical to a pre-existing unknown object
            return z3.BoolVal(False)
        if isinstance(a, Poison) or isinstance(b, Poison):
            return z3.Bool("poison!%s!eq" % self.role)
        if isinstance(a, Sym) and isinstance(b, Sym):
            return self.w.refeq(a.key, b.key)
        ka, kb = sorted([vkey(a), vkey(b)])
        return self.w.fact("refeq!%s!%s" % (ka, kb))

    def str_eq(self, a, b):
        """string equality is by content (WASM: $__Str$eq, TS: compares the text)"""
        if isinstance(a, Str) and isinstance(b, Str):
            return z3.BoolVal(a.s == b.s)
        if vkey(a) == vkey(b):
            return z3.BoolVal(True)
        ka, kb = sorted([vkey(a), vkey(b)])
        return self.w.fact("streq!%s!%s" % (ka, kb))

    # ------------------------------------------------------------------ running
    def run(self, fname, args, pc0=(), model0=None):
        f = self.p.fns[fname]
        st = State()
        st.env = {}
        st.pc = list(pc0)
        st.trace = []
        st.frames = []
        st.steps = 0
        st.forks = 0
        st.late = None
        st.model = model0
        st.entered = frozenset()
        st.known = set()
        for n, a in zip(f["params"], args):
            st.env[n] = a
        st.stack = [("ret", f["retval"], None, None, 0), ("seq", f["body"], 0)]
        self.paths = []
        work = [st]
        while work:
            s = work.pop()
            try:
                self.step_until_fork(s, work)
            except Budget as e:
                self.paths.append(Path(s.pc, s.trace, "bound", why=str(e)))
            if self.deadline is not None and time.time() > self.deadline and work:
                for s2 in work:
                    self.paths.append(Path(s2.pc, s2.trace, "bound", why="time budget"))
                work = []
            if len(self.paths) + len(work) > self.max_paths:
                for s2 in work:
                    self.paths.append(Path(s2.pc, s2.trace, "bound", why="path budget"))
                work = []
        return self.paths

    def finish(self, st, outcome, value=None, why=None):
        p = Path(st.pc, st.trace, outcome, value, why, st.model)
        p.entered = st.entered
        self.paths.append(p)

    def branch(self, st, cond, work, then_fn, else_fn):
        """cond: z3 Bool.  Calls then_fn(state)/else_fn(state) on the feasible sides (forking when both are)."""
        c = z3.simplify(cond)
        if z3.is_true(c):
            then_fn(st)
            return [st]
        if z3.is_false(c):
            else_fn(st)
            return [st]
        # a decision already taken on this path (same hash-consed term) needs no solver call
        nc = z3.Not(c)
        cid, nid = c.get_id(), nc.get_id()
        if cid in st.known:
            then_fn(st)
            return [st]
        if nid in st.known:
            else_fn(st)
            return [st]
        in_loop = any(fr[0] == "loop" for fr in st.stack)
        if in_loop and st.forks >= self.max_forks:
            raise Budget("loop unrolling budget")
        out = []
        # a cached model of the path condition decides one side for free
        t_m = e_m = None
        if st.model is not None:
            v = st.model.eval(c, model_completion=True)
            if z3.is_true(v):
                t_m = st.model
            elif z3.is_false(v):
                e_m = st.model
        if t_m is None:
            t_m = self.feasible(st.pc + [c])
        if e_m is None:
            e_m = self.feasible(st.pc + [z3.Not(c)])
        if t_m is not None and e_m is not None:
            s2 = st.copy()
            if in_loop:
                # only two-sided decisions taken inside loops count against the unrolling bound
                st.forks += 1
                s2.forks += 1
            st.pc.append(c)
            s2.pc.append(nc)
            st.known.add(cid)
            s2.known.add(nid)
            st.model = t_m
            s2.model = e_m
            then_fn(st)
            else_fn(s2)
            out = [st, s2]
        elif t_m is not None:
            st.pc.append(c)
            st.known.add(cid)
            st.model = t_m
            then_fn(st)
            out = [st]
        elif e_m is not None:
            st.pc.append(nc)
            st.known.add(nid)
            st.model = e_m
            else_fn(st)
            out = [st]
        return out

    def step_until_fork(self, st, work):
        """run `st` until it ends or forks; forked / continuing states are pushed on `work`"""
        while True:
            if not st.stack:
                raise Unsupported("empty stack")
            st.steps += 1
            if st.steps > self.max_steps:
                raise Budget("step budget")
            fr = st.stack.pop()
            kind = fr[0]
            if kind == "seq":
                _, stmts, i = fr
                if i >= len(stmts):
                    continue
                st.stack.append(("seq", stmts, i + 1))
                r = self.exec_stmt(stmts[i], st, work)
                if r == "forked":
                    return
                if r == "done":
                    return
                continue
            if kind == "fa":
                _, fas, which = fr
                vals = [(fa["n"], self.ev(fa["e1"] if which == 1 else fa["e2"], st)) for fa in fas]
                for n, v in vals:
                    st.env[n] = v
                continue
            if kind == "loop":
                _, w = fr
                vals = [self.ev(v["loop"], st) for v in w["lv"]]
                for v, val in zip(w["lv"], vals):
                    st.env[v["n"]] = val
                st.stack.append(("loop", w))
                st.stack.append(("seq", w["s"], 0))
                continue
            if kind == "ret":
                _, retexpr, saved_env, rc, depth = fr
                val = self.ev(retexpr, st)
                if saved_env is None:
                    self.finish(st, "return", val)
                    return
                st.env = dict(saved_env)     # the saved dict is shared by forked states: never mutate it
                st.frames.pop()
                if rc is not None:
                    st.env[rc] = val
                continue
            raise Unsupported("frame %s" % kind)

    def assume_bool(self, t, st):
        """Conditions and operands of `!` are source-level booleans (0 or 1): the optimizer relies on it
        (e.g. `if b {1} else {0}` is rewritten to `b`).  Assumed on the reference side."""
        if self.role != "ref":
            return
        c = z3.simplify(z3.Or(t == BV(0), t == BV(1)))
        if not z3.is_true(c):
            st.pc.append(c)
            st.model = None

    # ------------------------------------------------------------------ statements
    def exec_stmt(self, s, st, work):
        k = s["k"]
        if k == "bin":
            return self.do_bin(s, st, work)
        if k == "not":
            t = self.as_int(self.ev(s["e"], st), "not")
            self.assume_bool(t, st)
            st.env[s["n"]] = Int(t ^ BV(1), jsbool=bool(s.get("jsbool")))
            return None
        if k == "isptr":
            st.env[s["n"]] = Int(z3.If(self.isptr(self.ev(s["e"], st), s["pt"]), BV(1), BV(0)))
            return None
        if k == "idx":
            v = self.ev(s["e"], st)
            st.env[s["n"]] = self.load(v, s["i"], s["t"])
            return None
        if k == "cast":
            return self.do_cast(s, st, work)
        if k == "ldecl":
            st.env.pop(s["n"], None)
            return None
        if k == "lassign":
            st.env[s["n"]] = self.ev(s["e"], st)
            return None
        if k == "struct":
            t = s["t"]["id"] if isinstance(s["t"], dict) else s["t"]
            st.env[s["n"]] = Obj(t, [self.ev(e, st) for e in s["es"]])
            return None
        if k == "closure":
            st.env[s["n"]] = Obj(s["t"], [Fn(s["fn"]), self.ev(s["ctx"], st)])
            return None
        if k == "enum":
            # HIR: an abstract sum value (tag + payload); its representation is chosen later by the compiler
            st.env[s["n"]] = Obj("#enum", [Int(BV(s["tag"]))] + [self.ev(e, st) for e in s["es"]])
            return None
        if k == "cdes":
            # HIR ConditionalDestructure: `if tagof(e) == tag { bind payload; s1 } else { s2 }`
            v = self.ev(s["e"], st)
            if not (isinstance(v, Obj) and v.ty == "#enum"):
                raise Budget("destructuring of a sum value that was not built in this execution")
            hit = z3.is_true(z3.simplify(v.fields[0].t == BV(s["tag"])))
            if hit:
                for i, b in enumerate(s["b"]):
                    if b is not None:
                        if 1 + i >= len(v.fields):
                            raise Unsupported("variant payload arity")
                        st.env[b["n"]] = v.fields[1 + i]
                st.stack.append(("fa", s["fa"], 1))
                st.stack.append(("seq", s["s1"], 0))
            else:
                st.stack.append(("fa", s["fa"], 2))
                st.stack.append(("seq", s["s2"], 0))
            return None
        if k == "if":
            if self.merge_pure and self.merge_if(s, st):
                return None
            ct = self.as_int(self.ev(s["c"], st), "if")
            self.assume_bool(ct, st)
            c = ct != BV(0)

            def then_(x, s=s):
                x.stack.append(("fa", s["fa"], 1))
                x.stack.append(("seq", s["s1"], 0))

            def else_(x, s=s):
                x.stack.append(("fa", s["fa"], 2))
                x.stack.append(("seq", s["s2"], 0))
            outs = self.branch(st, c, work, then_, else_)
            return self.resume(outs, st, work)
        if k == "sif":
            ct = self.as_int(self.ev(s["c"], st), "if")
            self.assume_bool(ct, st)
            c = ct != BV(0)
            if s["inv"]:
                c = z3.Not(c)

            def then_(x, s=s):
                x.stack.append(("seq", s["s"], 0))
            outs = self.branch(st, c, work, then_, lambda x: None)
            return self.resume(outs, st, work)
        if k == "while":
            vals = [self.ev(v["init"], st) for v in s["lv"]]
            for v, val in zip(s["lv"], vals):
                st.env[v["n"]] = val
            st.stack.append(("loop", s))
            st.stack.append(("seq", s["s"], 0))
            return None
        if k == "break":
            val = self.ev(s["e"], st)
            while st.stack and st.stack[-1][0] != "loop":
                fr = st.stack.pop()
                if fr[0] == "ret":
                    raise Unsupported("break outside a loop")
            if not st.stack:
                raise Unsupported("break outside a loop")
            w = st.stack.pop()[1]
            if w["bc"] is not None:
                st.env[w["bc"]["n"]] = val
            return None
        if k == "call":
            return self.do_call(s, st, work)
        raise Unsupported("statement kind %s" % k)

    # ---- if-conversion of pure diamonds (opt-in: merge_pure) -----------------------------------------------
    _PURE_OPS = ("PLUS", "MINUS", "MUL", "LT", "LE", "GT", "GE", "EQ", "NE", "XOR", "LAND", "LOR")

    def _pure_block(self, stmts):
        for x in stmts:
            k = x["k"]
            if k == "bin" and x["op"] in self._PURE_OPS:
                continue
            if k == "not":
                continue
            if k == "if" and self._pure_if(x):
                continue
            return False
        return True

    def _pure_if(self, s):
        r = self._pure_cache.get(id(s))
        if r is None:
            r = self._pure_block(s["s1"]) and self._pure_block(s["s2"])
            self._pure_cache[id(s)] = r
        return r

    def merge_if(self, s, st):
        """`if c { pure } else { pure }` whose results are integers is evaluated on both sides and joined with
        ite instead of forking the path (exact: the branches have no effects, calls, loads, casts or traps)."""
        if self.role != "new" or not self._pure_if(s):
            return False
        cv = self.ev(s["c"], st)
        if not isinstance(cv, Int):
            return False
        c = cv.t != BV(0)
        saved = st.env
        outs = []
        try:
            for which, block in ((1, s["s1"]), (2, s["s2"])):
                st.env = dict(saved)
                for x in block:
                    if x["k"] == "if":
                        if not self.merge_if(x, st):
                            return False
                    elif x["k"] == "bin":
                        a = self.ev(x["e1"], st)
                        b = self.ev(x["e2"], st)
                        if not (isinstance(a, Int) and isinstance(b, Int)):
                            return False
                        if self.do_bin(x, st, None) is not None:
                            return False
                    else:
                        if not isinstance(self.ev(x["e"], st), Int):
                            return False
                        if self.exec_stmt(x, st, None) is not None:
                            return False
                vals = [self.ev(fa["e1"] if which == 1 else fa["e2"], st) for fa in s["fa"]]
                if not all(isinstance(v, Int) for v in vals):
                    return False
                outs.append(vals)
        finally:
            st.env = saved
        for fa, v1, v2 in zip(s["fa"], outs[0], outs[1]):
            st.env[fa["n"]] = Int(z3.simplify(z3.If(c, v1.t, v2.t)))
        return True

    def resume(self, outs, st, work):
        if not outs:
            return "done"          # infeasible on both sides (pc contradictory)
        if len(outs) == 1 and outs[0] is st:
            return None
        if self.rng is not None and len(outs) == 2 and self.rng.random() < 0.5:
            outs = [outs[1], outs[0]]     # seeded sibling order: a budgeted run explores a different prefix per seed
        for o in outs:
            work.append(o)
        return "forked"

    def isptr(self, v, pt):
        if pt == "#object":
            # JavaScript's `typeof v === 'object'`: anything that is not a number (structs and strings are arrays)
            if isinstance(v, (Obj, Str)):
                return z3.BoolVal(True)
            if isinstance(v, (I31, Int, Fn)):
                return z3.BoolVal(False)
            if isinstance(v, Sym):
                return z3.Not(self.w.fact("isi31!%s" % v.key))
        if isinstance(v, Obj):
            return z3.BoolVal(self.p.is_subtype(v.ty, pt))
        if isinstance(v, (I31, Int)):
            return z3.BoolVal(False)
        if isinstance(v, Str):
            return z3.BoolVal(pt == "_Str")
        if isinstance(v, Fn):
            return z3.BoolVal(False)
        if isinstance(v, Sym):
            return self.w.fact("isptr!%s!%s" % (v.key, pt))
        if isinstance(v, Poison):
            return z3.Bool("poison!%s!isptr" % self.role)
        raise Unsupported("isptr of %r" % (v,))

    def load(self, v, idx, ty):
        if isinstance(v, Obj):
            if idx >= len(v.fields):
                raise Unsupported("field %d of %r" % (idx, v))
            return v.fields[idx]
        if isinstance(v, Sym):
            t = ty if isinstance(ty, str) else (ty.get("id") if "id" in ty else "any")
            view = v.ty if isinstance(v.ty, str) else None
            if idx == 0:
                # the tag slot (index 0) of a boxed variant is one slot, whether it is read through the enum
                # type, through a variant subtype or through an untyped (`any`) reference
                root = view
                while root is not None and self.p.parent_of(root):
                    root = self.p.parent_of(root)
                if root is None or root == "any" or root in self.p.enum_types:
                    view = "#tag"
            return self.w.field(v, idx, t, view)
        if isinstance(v, Poison):
            return Poison(v.name + ".f%d" % idx)
        raise Unsupported("field access on %r" % (v,))

    def do_cast(self, s, st, work):
        v = self.ev(s["e"], st)
        t = s["t"]
        st.env[s["n"]] = v
        if not (isinstance(t, dict) and "id" in t):
            return None
        tn = t["id"]
        ok = None
        if tn in self.p.enum_types:
            if isinstance(v, Sym):
                st.env[s["n"]] = Sym(v.key, tn)
            return None
        if isinstance(v, Obj):
            ok = z3.BoolVal(self.p.is_subtype(v.ty, tn) or tn not in self.p.types or self.p.types.get(v.ty) is None)
        elif isinstance(v, Sym):
            # casting an unknown reference to its own static type (or a supertype of it) cannot fail
            if v.ty == tn or (isinstance(v.ty, str) and self.p.is_subtype(v.ty, tn)):
                st.env[s["n"]] = Sym(v.key, tn)
                return None
            st.env[s["n"]] = Sym(v.key, tn)
            ok = self.w.fact("isptr!%s!%s" % (v.key, tn))
        elif isinstance(v, Str):
            ok = z3.BoolVal(tn == "_Str")
        elif isinstance(v, (I31, Int, Fn)):
            ok = z3.BoolVal(False)
        elif isinstance(v, Poison):
            return None
        if ok is None:
            return None
        if self.role == "ref":
            # In the reference program every cast is guarded (by IsPointer or by a tag comparison the
            # abstract object model does not relate to the type): assume it succeeds.  Only the new side can
            # *introduce* a failing cast.
            okc = z3.simplify(ok)
            if z3.is_false(okc):
                st.stack = []
                self.finish(st, "trap", why="illegal cast to %s" % tn)
                return "done"
            if not z3.is_true(okc):
                st.pc.append(okc)
                st.model = None
            return None

        def bad(x):
            x.stack = []
            self.finish(x, "trap", why="illegal cast to %s" % tn)
        outs = self.branch(st, ok, work, lambda x: None, bad)
        outs = [o for o in outs if o.stack]
        return self.resume(outs, st, work)

    def do_bin(self, s, st, work):
        op = s["op"]
        a = self.ev(s["e1"], st)
        b = self.ev(s["e2"], st)
        n = s["n"]
        if op in ("EQ", "NE") and not (isinstance(a, (Int, Poison)) and isinstance(b, (Int, Poison))):
            is_str = any(isinstance(v, Str) or (isinstance(v, Sym) and v.ty == "_Str") for v in (a, b)) or \
                any(isinstance(x.get("t"), dict) and x["t"].get("id") == "_Str" for x in (s["e1"], s["e2"]))
            if isinstance(a, (I31, Obj, Fn)) or isinstance(b, (I31, Obj, Fn)):
                is_str = False      # e.g. an unboxed Option<Str> value compared with the i31 of `None`
            e = self.str_eq(a, b) if is_str else self.ref_eq(a, b)
            st.env[n] = Int(z3.If(e if op == "EQ" else z3.Not(e), BV(1), BV(0)))
            return None
        x = self.as_int(a, op)
        y = self.as_int(b, op)
        ext = lambda t: z3.SignExt(32, t)
        if op in ("PLUS", "MINUS", "MUL"):
            r = {"PLUS": x + y, "MINUS": x - y, "MUL": x * y}[op]
            if self.role == "ref":
                if op == "PLUS":
                    ok = z3.And(z3.BVAddNoOverflow(x, y, True), z3.BVAddNoUnderflow(x, y))
                elif op == "MINUS":
                    ok = z3.And(z3.BVSubNoOverflow(x, y), z3.BVSubNoUnderflow(x, y, True))
                else:
                    ok = z3.And(z3.BVMulNoOverflow(x, y, True), z3.BVMulNoUnderflow(x, y))
                ok = z3.simplify(ok)
                if not z3.is_true(ok):
                    st.pc.append(ok)       # runs that overflow are outside the property
                    st.late = True
                    st.model = None
            st.env[n] = Int(r)
            return None
        if op in ("DIV", "MOD"):
            trap = y == BV(0)
            if op == "DIV":
                trap = z3.Or(trap, z3.And(x == BV(INT_MIN), y == BV(-1)))
            r = (x / y) if op == "DIV" else z3.SRem(x, y)
            st.env[n] = Int(r)
            if self.role == "ref" and not self.ref_div_traps:
                ok = z3.simplify(z3.Not(trap))
                if not z3.is_true(ok):
                    st.pc.append(ok)
                    st.late = True
                    st.model = None
                return None

            def bad(xs):
                xs.stack = []
                self.finish(xs, "trap", why="integer division trap")
            outs = self.branch(st, z3.Not(trap), work, lambda xs: None, bad)
            outs = [o for o in outs if o.stack]
            return self.resume(outs, st, work)
        if op in ("EQ", "NE") and s.get("js") in ("===", "!==") and isinstance(a, Int) and isinstance(b, Int) and a.jsbool != b.jsbool:
            # JavaScript: a boolean is never strictly equal to a number
            st.env[n] = Int(BV(0 if op == "EQ" else 1))
            return None
        if op in ("LT", "LE", "GT", "GE", "EQ", "NE"):
            c = {"LT": x < y, "LE": x <= y, "GT": x > y, "GE": x >= y, "EQ": x == y, "NE": x != y}[op]
            st.env[n] = Int(z3.If(c, BV(1), BV(0)))
            return None
        if op == "XOR":
            st.env[n] = Int(x ^ y)
            return None
        if op == "LAND":
            st.env[n] = Int(x & y)
            return None
        if op == "LOR":
            st.env[n] = Int(x | y)
            return None
        if op == "SHL":
            st.env[n] = Int(x << (y & BV(31)))
            return None
        if op == "SHR":
            st.env[n] = Int(z3.LShR(x, y & BV(31)))
            return None
        raise Unsupported("operator %s" % op)

    def do_call(self, s, st, work):
        f = s["f"]
        args = [self.ev(a, st) for a in s["args"]]
        target = None
        callee_val = None
        if "fn" in f:
            target = f["fn"]
        else:
            cv = self.ev(f["var"], st)
            if isinstance(cv, Fn):
                target = cv.name
            elif isinstance(cv, Obj) and len(cv.fields) == 2 and isinstance(cv.fields[0], Fn):
                # MIR closure value: code(ctx, args...)
                target = cv.fields[0].name
                args = [cv.fields[1]] + args
            elif isinstance(cv, Sym) and self.p.ir == "mir":
                # unknown closure: normalised to the LIR calling convention  code = c[0], ctx = c[1]
                view = cv.ty if isinstance(cv.ty, str) else None
                callee_val = self.w.field(cv, 0, "any", view)
                args = [self.w.field(cv, 1, "any", view)] + args
            else:
                callee_val = cv
        rt = s["rt"]
        rts = rt if isinstance(rt, str) else (rt.get("id") if "id" in rt else "any")
        if target is not None and not is_builtin(target) and self.enter and target in self.p.fns:
            if len(st.frames) >= self.max_depth:
                raise Budget("call depth")
            callee = self.p.fns[target]
            if self.check_indirect_sigs and "var" in f and self.p.ir == "lir":
                # WebAssembly's call_indirect traps unless the callee's declared type matches the type the call site
                # names; both are printed from these LIR types, so they must agree parameter by parameter
                site = (f["var"].get("t") or {}).get("fn") if isinstance(f["var"].get("t"), dict) else None
                if site is not None and (list(site["args"]) != list(callee["ptypes"])):
                    st.stack = []
                    self.finish(st, "trap", why="indirect call signature mismatch: %s is declared %s but called as %s"
                                % (target, json.dumps(callee["ptypes"]), json.dumps(site["args"])))
                    return "done"
            saved = st.env
            st.entered = st.entered | {target}
            st.frames.append(target)
            st.env = {}
            for pn, a in zip(callee["params"], args):
                st.env[pn] = a
            st.stack.append(("ret", callee["retval"], saved, s["rc"], len(st.frames)))
            st.stack.append(("seq", callee["body"], 0))
            return None
        # un-entered call: an observable event with an arbitrary result
        idx = len(st.trace)
        name = target if target is not None else "<indirect>"
        st.trace.append((name, callee_val, args))
        if target == "__Process$panic":
            st.stack = []
            self.finish(st, "panic")
            return "done"
        self.w.ev_types.setdefault("ev%d:%s" % (idx, name), rts)
        if s["rc"] is not None:
            st.env[s["rc"]] = self.w.mk("ev%d:%s" % (idx, name), rts)
        return None


# ----------------------------------------------------------------------------------------------
# equivalence of observables

def val_eq(a, b, ex):
    """z3 Bool: the two values are observably the same"""
    if getattr(ex, "loose_refs", False) and not (isinstance(a, (Int, Str)) and isinstance(b, (Int, Str))):
        # comparing an IR with abstract sum values against one with chosen representations: only integers and
        # strings are compared, references are not
        if not (isinstance(a, I31) and isinstance(b, I31)):
            return z3.BoolVal(True)
    for x, y in ((a, b), (b, a)):
        if isinstance(x, Int) and isinstance(y, I31) and getattr(ex, "js_numbers", False):
            return x.t == y.t * BV(2) + BV(1)
    if isinstance(a, Int) and isinstance(b, Int):
        return a.t == b.t
    if isinstance(a, I31) and isinstance(b, I31):
        return a.t == b.t
    if isinstance(a, Sym) and isinstance(b, Sym):
        return z3.BoolVal(a.key == b.key) if a.key == b.key else ex.ref_eq(a, b)
    if isinstance(a, Str) and isinstance(b, Str):
        return z3.BoolVal(a.s == b.s)
    if isinstance(a, Fn) and isinstance(b, Fn):
        return z3.BoolVal(a.name == b.name)
    if isinstance(a, Obj) and isinstance(b, Obj):
        if (a.ty != b.ty and not getattr(ex, "ignore_type_names", False)) or len(a.fields) != len(b.fields):
            return z3.BoolVal(False)
        return z3.And(*[val_eq(x, y, ex) for x, y in zip(a.fields, b.fields)]) if a.fields else z3.BoolVal(True)
    if isinstance(a, Poison) or isinstance(b, Poison):
        return z3.BoolVal(False)
    if type(a) is not type(b):
        # e.g. an unknown reference against a fresh allocation
        if isinstance(a, (Sym,)) or isinstance(b, (Sym,)):
            if isinstance(a, (Int,)) or isinstance(b, (Int,)):
                return z3.BoolVal(False)
            return ex.ref_eq(a, b)
        return z3.BoolVal(False)
    return z3.BoolVal(False)


def obs_diff(pa, pb, ex):
    """z3 Bool that is true iff the observables of the two paths differ (None: structurally different)"""
    if pa.outcome != pb.outcome:
        return z3.BoolVal(True), "outcome %s vs %s (%s)" % (pa.outcome, pb.outcome, pb.why or pa.why)
    if len(pa.trace) != len(pb.trace):
        return z3.BoolVal(True), "number of observable calls %d vs %d" % (len(pa.trace), len(pb.trace))
    eqs = []
    for (na, ca, aa), (nb, cb, ab) in zip(pa.trace, pb.trace):
        if na != nb or len(aa) != len(ab) or (ca is None) != (cb is None):
            return z3.BoolVal(True), "call sequence differs: %s vs %s" % (na, nb)
        if ca is not None:
            eqs.append(val_eq(ca, cb, ex))
        for x, y in zip(aa, ab):
            eqs.append(val_eq(x, y, ex))
    if pa.outcome == "return":
        eqs.append(val_eq(pa.value, pb.value, ex))
    if not eqs:
        return z3.BoolVal(False), ""
    return z3.Not(z3.And(*eqs)), "argument or result values differ"


def mk_args(f, world):
    args = []
    for i, t in enumerate(f["ptypes"]):
        ts = t if isinstance(t, str) else (t.get("id") if "id" in t else "any")
        args.append(world.mk("a%d" % i, ts))
    return args


def model_args(model, f, world):
    out = {}
    for i, t in enumerate(f["ptypes"]):
        if t == "int":
            out[f["params"][i]] = model.eval(z3.BitVec("a%d" % i, 32), model_completion=True).as_signed_long()
        else:
            out[f["params"][i]] = "<object a%d>" % i
    facts = {}
    for k, b in world.bools.items():
        v = model.eval(b, model_completion=False)
        if z3.is_true(v) or z3.is_false(v):
            facts[k] = z3.is_true(v)
    fields = {}
    for (k, view, idx), v in world.fields.items():
        if isinstance(v, Int):
            mv = model.eval(v.t, model_completion=False)
            if z3.is_bv_value(mv):
                fields["%s@%s.f%d" % (k, view, idx)] = mv.as_signed_long()
    return {"arguments": out, "object_facts": facts, "object_fields": fields}


def compare_function(name, progA, progB, bounds, enter=False, timeout_s=20, ignore_type_names=False, loose_refs=False,
                     name_b=None, typed=False, ref_div_traps=False, js=False, wf_types=None):
    """-> dict(status=equal|different|skipped, ...).  progA is the reference.  `name_b`: compare with a differently
    named function of progB (source-level laws); `typed`: unknown arguments are well-formed values of their types."""
    name_b = name_b or name
    fa = progA.fns[name]
    fb = progB.fns[name_b]
    by_name = False
    if len(fa["ptypes"]) != len(fb["ptypes"]):
        # parameters were removed (constant-parameter elimination): the remaining ones are matched by name
        if not set(fb["params"]) <= set(fa["params"]):
            return {"status": "skipped", "why": "signature changed (%d vs %d parameters)" % (len(fa["ptypes"]), len(fb["ptypes"]))}
        by_name = True
    world = World()
    world.is_subtype = progB.is_subtype
    if typed:
        world.types = wf_types if wf_types is not None else progB.types
    # fields of unknown objects are keyed by (object, static view, index); when the two programs name their types
    # differently (type deduplication merges identical layouts) or have no types (JavaScript) the view is dropped
    world.loose_views = js or ignore_type_names
    solver = z3.Solver()
    exA = Exec(progA, world, "ref", enter, bounds, solver)
    exB = Exec(progB, world, "new", enter, bounds, solver)
    exA.ignore_type_names = exB.ignore_type_names = ignore_type_names
    exA.loose_refs = exB.loose_refs = loose_refs
    exA.ref_div_traps = ref_div_traps
    exA.js_numbers = exB.js_numbers = js
    args = mk_args(fa, world)
    t0 = time.time()
    tb = (bounds or {}).get("seconds")
    if tb:
        # the reference side may use at most half of the time budget, so that the other side always gets to run
        exA.deadline = t0 + tb / 2.0
        exB.deadline = t0 + tb
    try:
        pathsA = exA.run(name, args)
    except Unsupported as e:
        return {"status": "skipped", "why": "reference side: %s" % e}
    res = {"status": "equal", "paths_ref": len(pathsA), "paths_new": 0, "pairs": 0, "bound_ref": 0, "bound_new": 0, "queries": 0}
    chk = z3.Solver()
    chk.set("timeout", timeout_s * 1000)
    for pa in pathsA:
        if pa.outcome == "bound":
            res["bound_ref"] += 1
            continue
        try:
            argsB = args if not by_name else [args[fa["params"].index(n)] for n in fb["params"]]
            pathsB = exB.run(name_b, argsB, pa.pc, pa.model)
        except Unsupported as e:
            return {"status": "skipped", "why": "new side: %s" % e}
        res["paths_new"] += len(pathsB)
        for pb in pathsB:
            if pb.outcome == "bound":
                res["bound_new"] += 1
                continue
            res["pairs"] += 1
            diff, why = obs_diff(pa, pb, exB)
            d = z3.simplify(diff)
            if z3.is_false(d):
                continue
            res["queries"] += 1
            chk.push()
            chk.add(*pb.pc)
            chk.add(d)
            if world.axioms:
                chk.add(*world.axioms)
            r = chk.check()
            if r == z3.sat:
                m = chk.model()
                chk.pop()
                res.update({"status": "different", "why": why, "witness": model_args(m, fa, world),
                            "ref_outcome": pa.outcome, "new_outcome": pb.outcome, "ref_why": pa.why, "new_why": pb.why,
                            "ref_trace": [t[0] for t in pa.trace], "new_trace": [t[0] for t in pb.trace],
                            "ref_value": str(m.eval(pa.value.t, model_completion=True)) if isinstance(pa.value, Int) else repr(pa.value),
                            "new_value": str(m.eval(pb.value.t, model_completion=True)) if isinstance(pb.value, Int) else repr(pb.value)})
                res["wall_s"] = round(time.time() - t0, 2)
                return res
            chk.pop()
            if r == z3.unknown:
                res["status"] = "inconclusive"
                res["why"] = "solver unknown on an equivalence query"
    res["feasibility_queries"] = exA.queries + exB.queries
    if res["status"] == "equal" and res["pairs"] == 0 and (res["bound_ref"] or res["bound_new"]):
        # every path of one side ran into a bound: nothing was compared, which is not "equal"
        res["status"] = "skipped"
        res["why"] = "budget: no pair of paths was completed within the bounds (%d / %d paths cut)" % (res["bound_ref"], res["bound_new"])
    res["wall_s"] = round(time.time() - t0, 2)
    return res
