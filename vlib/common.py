"""Shared plumbing for every check: scratch workspace regenerated from /repo, evidence
writer, known-findings protocol, exit codes.

Exit codes used by every check:
  0  property held on everything explored (KNOWN-FINDING lines may have been printed)
  1  VIOLATION (replayed against the real code) -- a line "VIOLATION property=<id> replay=<path>"
  2  INCONCLUSIVE: the encoding could not be regenerated / a solver gave up / a witness did
     not replay.  Never a pass, never an alarm.
"""
import contextlib
import fcntl
import hashlib
import json
import os
import shutil
import subprocess
import sys
import time

VERIF = os.path.dirname(os.path.dirname(os.path.abspath(__file__)))
REPO = os.environ.get("VERIF_REPO", "/repo")
CACHE = os.environ.get("VERIF_SCRATCH", "/var/tmp/verif-cache")
# where evidence and replay files go; only the seeded-mutant runner (tools/run_seeded.py) redirects it, so that a
# run against a deliberately broken copy never overwrites the evidence of /repo
OUT = os.environ.get("VERIF_OUT", "/verif")
GUARD = "samlang_verif"

OFFLINE_ENV = {
    "CARGO_NET_OFFLINE": "true",
    "GOPROXY": "off",
    "PIP_NO_INDEX": "1",
}


class Inconclusive(Exception):
    pass


def log(*a):
    print(*a, file=sys.stderr, flush=True)


def sha(path):
    h = hashlib.sha256()
    with open(path, "rb") as f:
        h.update(f.read())
    return h.hexdigest()[:16]


def run(cmd, cwd=None, env=None, timeout=None, check=True, capture=True, input=None):
    e = dict(os.environ)
    e.update(OFFLINE_ENV)
    if env:
        e.update(env)
    t0 = time.time()
    try:
        p = subprocess.run(
            cmd, cwd=cwd, env=e, timeout=timeout, input=input,
            stdout=subprocess.PIPE if capture else None,
            stderr=subprocess.PIPE if capture else None,
            text=True,
        )
    except subprocess.TimeoutExpired as ex:
        raise Inconclusive("timeout after %ss: %s" % (timeout, " ".join(cmd[:6]))) from ex
    dt = time.time() - t0
    if check and p.returncode != 0:
        tail = ((p.stdout or "")[-3000:] + "\n" + (p.stderr or "")[-6000:])
        raise Inconclusive("command failed (%d) in %.1fs: %s\n%s" % (p.returncode, dt, " ".join(cmd[:8]), tail))
    return p


class Scratch:
    """A copy of /repo's *working tree* (not HEAD) under CACHE/<slot>/w, refreshed with rsync on
    every run.  The path is stable per slot so that cargo's incremental fingerprints survive
    between runs (rsync -a keeps mtimes: only files that changed in /repo are rebuilt).  The
    slot is locked for the duration of the check."""

    def __init__(self, slot):
        self.slot = slot
        self.root = os.path.join(CACHE, slot)
        self.w = os.path.join(self.root, "w")
        self.target = os.path.join(self.root, "target")
        self._lock = None

    def __enter__(self):
        os.makedirs(self.root, exist_ok=True)
        self._lock = open(os.path.join(self.root, ".lock"), "w")
        fcntl.flock(self._lock, fcntl.LOCK_EX)
        os.makedirs(self.w, exist_ok=True)
        items = ["Cargo.toml", "Cargo.lock", "crates", "std", "tests", "sconfig.json"]
        srcs = [os.path.join(REPO, i) for i in items if os.path.exists(os.path.join(REPO, i))]
        # --checksum is not needed: -a compares size+mtime; --delete removes stale files
        # (including harness files injected by a previous run).
        run(["rsync", "-a", "--delete", "--exclude", "target", "--exclude", ".git"] + srcs + [self.w + "/"])
        return self

    def __exit__(self, *a):
        try:
            fcntl.flock(self._lock, fcntl.LOCK_UN)
            self._lock.close()
        except Exception:
            pass
        if os.environ.get("VERIF_KEEP_SCRATCH", "1") == "0":
            shutil.rmtree(self.root, ignore_errors=True)

    # ---- source injection (scratch copy only; /repo is never touched) ----
    def append_child_module(self, rel_file, harness_path, modname="verif_harness", cfg=None):
        """Append `#[cfg(..)] #[path=..] mod <modname>;` to a source file of the scratch copy.
        A child module sees its ancestors' private items."""
        p = os.path.join(self.w, rel_file)
        if not os.path.exists(p):
            raise Inconclusive("encoding could not be regenerated: %s no longer exists" % rel_file)
        cfg = cfg or "any(kani, %s)" % GUARD
        line = '\n#[cfg(%s)]\n#[path = "%s"]\npub mod %s;\n' % (cfg, harness_path, modname)
        with open(p, "a") as f:
            f.write(line)

    def add_workspace_member(self, src_dir, name):
        """Copy a crate from /verif into the scratch workspace and register it."""
        dst = os.path.join(self.w, "crates", name)
        if os.path.exists(dst):
            shutil.rmtree(dst)
        shutil.copytree(src_dir, dst)
        ct = os.path.join(self.w, "Cargo.toml")
        s = open(ct).read()
        if '"crates/%s"' % name not in s:
            s = s.replace("members = [", 'members = [\n  "crates/%s",' % name, 1)
            open(ct, "w").write(s)
        return dst

    def cargo(self, args, toolchain=None, rustflags=None, timeout=1800, env=None, target=None, check=True):
        cmd = ["cargo"]
        if toolchain:
            cmd.append("+" + toolchain)
        cmd += args
        e = {"CARGO_TARGET_DIR": target or self.target}
        if rustflags:
            e["RUSTFLAGS"] = rustflags
        if env:
            e.update(env)
        return run(cmd, cwd=self.w, env=e, timeout=timeout, check=check)


# --------------------------------------------------------------------------------------
# known findings

def load_known(prop):
    p = os.path.join(VERIF, "known_findings.json")
    if not os.path.exists(p):
        return []
    data = json.load(open(p))
    return [f for f in data.get("findings", []) if f.get("property") == prop and f.get("status") == "known"]


# --------------------------------------------------------------------------------------
# evidence + result

class Result:
    def __init__(self, prop, level, tier):
        self.prop = prop
        self.level = level
        self.tier = tier
        self.seed = int(os.environ.get("VERIF_SEED", "0") or 0)
        self.t0 = time.time()
        self.coverage = {}
        self.assumptions = []
        self.violations = []      # (description, replay_path)
        self.known_hits = []      # strings
        self.inconclusive = []    # strings
        self.samples = []

    def sample(self, s, cap=12):
        if len(self.samples) < cap:
            self.samples.append(s)

    def violation(self, what, replay_obj):
        if getattr(self, "nviol", 0) >= 25:
            self.nviol += 1
            return
        d = os.path.join(OUT, "replays", self.prop)
        os.makedirs(d, exist_ok=True)
        blob = json.dumps(replay_obj, sort_keys=True, indent=1, default=str)
        name = hashlib.sha256(blob.encode()).hexdigest()[:12] + ".json"
        path = os.path.join(d, name)
        with open(path, "w") as f:
            f.write(blob)
        self.nviol = getattr(self, "nviol", 0) + 1
        if len(self.violations) < 25:
            self.violations.append((what, path))

    def known(self, what):
        if what not in self.known_hits:
            self.known_hits.append(what)

    def inconc(self, what):
        self.inconclusive.append(what)
        log("INCONCLUSIVE:", what)

    def finish(self):
        cov = dict(self.coverage)
        cov.setdefault("samples", self.samples or ["(no obligations were generated)"])
        cov["known_findings_hit"] = self.known_hits
        cov["inconclusive"] = self.inconclusive
        ev = {
            "property_id": self.prop,
            "tier": self.tier,
            "seed": self.seed,
            "level": self.level,
            "coverage": cov,
            "assumptions": self.assumptions,
            "wall_s": round(time.time() - self.t0, 2),
            "violations": getattr(self, "nviol", 0),
        }
        os.makedirs(os.path.join(OUT, "evidence"), exist_ok=True)
        with open(os.path.join(OUT, "evidence", self.prop + ".json"), "w") as f:
            json.dump(ev, f, indent=1, default=str)
        for k in self.known_hits:
            print("KNOWN-FINDING: property=%s %s" % (self.prop, k))
        if self.violations:
            for what, path in self.violations:
                print("VIOLATION property=%s replay=%s" % (self.prop, path))
                print("  " + what)
            return 1
        if self.inconclusive:
            for i in self.inconclusive:
                print("INCONCLUSIVE property=%s %s" % (self.prop, i))
            return 2
        print("OK property=%s tier=%s wall=%.1fs" % (self.prop, self.tier, time.time() - self.t0))
        return 0


def tier_from_env(default="quick"):
    return os.environ.get("VERIF_TIER", default)
