// Child module of samlang-ast/src/lir.rs (scratch copy only): prints the TypeScript the real
// printer emits for `let r = a <op> b`.
#![allow(dead_code, unused_imports)]
use super::*;

pub fn binary_ts(op: BinaryOperator) -> String {
  let heap = &mut Heap::new();
  let table = SymbolTable::new();
  let st = Statement::Binary {
    name: PStr::LOWER_R,
    operator: op,
    e1: Expression::Variable(PStr::LOWER_A, INT_32_TYPE),
    e2: Expression::Variable(PStr::LOWER_B, INT_32_TYPE),
  };
  let mut s = String::new();
  st.pretty_print_internal(heap, &table, &HashMap::new(), 0, &None, &mut s);
  s
}

pub fn not_ts() -> String {
  let heap = &mut Heap::new();
  let table = SymbolTable::new();
  let st = Statement::Not { name: PStr::LOWER_R, operand: Expression::Variable(PStr::LOWER_A, INT_32_TYPE) };
  let mut s = String::new();
  st.pretty_print_internal(heap, &table, &HashMap::new(), 0, &None, &mut s);
  s
}

/// `let r = a <op> <data-free variant 0>` with `a` of pointer type: how the TypeScript back end tests an enum value
/// against a data-free variant (EQ / NE only).
pub fn ref_cmp_ts(op: BinaryOperator) -> String {
  let heap = &mut Heap::new();
  let table = SymbolTable::new();
  let st = Statement::Binary {
    name: PStr::LOWER_R,
    operator: op,
    e1: Expression::Variable(PStr::LOWER_A, Type::AnyPointer),
    e2: Expression::Int31Literal(0),
  };
  let mut s = String::new();
  st.pretty_print_internal(heap, &table, &HashMap::new(), 0, &None, &mut s);
  s
}

/// the same for two values of pointer type
pub fn ref_cmp_vars_ts(op: BinaryOperator) -> String {
  let heap = &mut Heap::new();
  let table = SymbolTable::new();
  let st = Statement::Binary {
    name: PStr::LOWER_R,
    operator: op,
    e1: Expression::Variable(PStr::LOWER_A, Type::AnyPointer),
    e2: Expression::Variable(PStr::LOWER_B, Type::AnyPointer),
  };
  let mut s = String::new();
  st.pretty_print_internal(heap, &table, &HashMap::new(), 0, &None, &mut s);
  s
}
