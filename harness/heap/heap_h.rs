// Child module of samlang-heap/src/lib.rs (scratch copy only): Kani proof harnesses for C17.
// The state is constructed directly (no Heap::new()); HashMap/HashSet are the container model
// (harness/heap/vmodel.rs).  Every harness carries a kani::cover! reachability witness.
#![allow(dead_code, unused_imports, unused_variables)]
use super::*;

// ------------------------------------------------------------------------------------------
// R: handle representation

#[cfg(kani)]
fn any_bytes<const N: usize>() -> ([u8; N], usize) {
  let buf: [u8; N] = kani::any();
  let len: usize = kani::any();
  kani::assume(len <= N);
  // 0xFF never occurs in UTF-8; every other byte value is allowed (a superset of all valid strings)
  let mut i = 0;
  while i < N {
    kani::assume(buf[i] != 0xFF);
    i += 1;
  }
  (buf, len)
}

#[cfg(kani)]
#[kani::proof]
#[kani::unwind(17)]
fn repr_inline_roundtrip() {
  let (buf, len) = any_bytes::<15>();
  let s = unsafe { std::str::from_utf8_unchecked(&buf[..len]) };
  let r = PStrPrivateRepr::from_str_opt(s).unwrap();
  // the tag byte of a heap id is never produced by an inline string
  assert!(unsafe { (r.heap_id >> 120) as u8 } != 255);
  assert!(r.as_heap_id().is_none());
  match r.as_inline_str() {
    Ok(back) => {
      assert!(back.len() == len);
      let bb = back.as_bytes();
      let mut i = 0;
      while i < len {
        assert!(bb[i] == buf[i]);
        i += 1;
      }
      kani::cover!(len == 15);
    }
    Err(_) => {
      assert!(false);
    }
  }
}

#[cfg(kani)]
#[kani::proof]
#[kani::unwind(17)]
fn repr_from_string_agrees() {
  // from_string pads with zeros exactly like from_str_opt, so that == on the raw 128 bits is string equality
  let (buf, len) = any_bytes::<15>();
  let s = unsafe { std::str::from_utf8_unchecked(&buf[..len]) };
  let a = PStrPrivateRepr::from_str_opt(s).unwrap();
  let b = PStrPrivateRepr::from_string(s.to_string()).ok().unwrap();
  assert!(a == b);
  assert!(unsafe { a.heap_id == b.heap_id });
  kani::cover!(len == 15);
  kani::cover!(len == 0);
}

#[cfg(kani)]
#[kani::proof]
#[kani::unwind(17)]
fn repr_long_strings_are_not_inlined() {
  let buf: [u8; 16] = kani::any();
  let s = unsafe { std::str::from_utf8_unchecked(&buf[..]) };
  assert!(PStrPrivateRepr::from_str_opt(s).is_none());
  assert!(PStrPrivateRepr::from_string(s.to_string()).is_err());
}

#[cfg(kani)]
#[kani::proof]
#[kani::unwind(8)]
fn repr_eq_iff_same_string() {
  // two inline strings of up to 6 bytes: equal handles <=> equal strings; Ord is the string order
  let (b1, l1) = any_bytes::<6>();
  let (b2, l2) = any_bytes::<6>();
  let s1 = unsafe { std::str::from_utf8_unchecked(&b1[..l1]) };
  let s2 = unsafe { std::str::from_utf8_unchecked(&b2[..l2]) };
  let r1 = PStrPrivateRepr::from_str_opt(s1).unwrap();
  let r2 = PStrPrivateRepr::from_str_opt(s2).unwrap();
  let mut same = l1 == l2;
  let mut i = 0;
  while i < 6 {
    if i < l1 && i < l2 && b1[i] != b2[i] {
      same = false;
    }
    i += 1;
  }
  assert!((r1 == r2) == same);
  assert!((r1.cmp(&r2) == std::cmp::Ordering::Equal) == same);
  assert!(r1.cmp(&r2) == r2.cmp(&r1).reverse());
  kani::cover!(same && l1 == 6);
  kani::cover!(!same && l1 == l2);
}

#[cfg(kani)]
#[kani::proof]
#[kani::unwind(17)]
fn repr_id_roundtrip() {
  let a: u32 = kani::any();
  let b: u32 = kani::any();
  let ra = PStrPrivateRepr::from_id(a);
  let rb = PStrPrivateRepr::from_id(b);
  assert!(ra.as_heap_id() == Some(a));
  assert!(matches!(ra.as_inline_str(), Err(x) if x == a));
  assert!((ra == rb) == (a == b));
  assert!(ra.cmp(&rb) == a.cmp(&b));
  kani::cover!(a == u32::MAX);
}

#[cfg(kani)]
#[kani::proof]
#[kani::unwind(17)]
fn repr_inline_and_id_never_collide() {
  let (buf, len) = any_bytes::<15>();
  let s = unsafe { std::str::from_utf8_unchecked(&buf[..len]) };
  let r = PStrPrivateRepr::from_str_opt(s).unwrap();
  let id: u32 = kani::any();
  let h = PStrPrivateRepr::from_id(id);
  assert!(r != h);
  assert!(r.cmp(&h) == std::cmp::Ordering::Less);
  assert!(h.cmp(&r) == std::cmp::Ordering::Greater);
  kani::cover!(len == 15 && id == 0);
}

#[cfg(kani)]
#[kani::proof]
#[kani::unwind(6)]
fn repr_const_literal_ctors() {
  let c: u8 = kani::any();
  kani::assume(c < 128);
  let d: u8 = kani::any();
  kani::assume(d < 128);
  let one = PStr::one_letter_literal(c as char);
  let b1 = [c];
  assert!(one.0 == PStrPrivateRepr::from_str_opt(unsafe { std::str::from_utf8_unchecked(&b1) }).unwrap());
  let b2 = [c, d];
  let two = PStr::two_letter_literal(&b2);
  assert!(two.0 == PStrPrivateRepr::from_str_opt(unsafe { std::str::from_utf8_unchecked(&b2) }).unwrap());
  let b3 = [c, d, c];
  let three = PStr::three_letter_literal(&b3);
  assert!(three.0 == PStrPrivateRepr::from_str_opt(unsafe { std::str::from_utf8_unchecked(&b3) }).unwrap());
  kani::cover!(c == 127);
}

// ------------------------------------------------------------------------------------------
// G: one step of the heap from an arbitrary valid small state

// distinct lengths (16..19 bytes): equality of two different strings is decided by the length compare,
// memcmp only runs on identical concrete contents
pub const S: [&str; 4] = ["a-long-string-16", "b-long-string--17", "c-long-string---18", "d-long-string----19"];

#[derive(Clone, Copy, PartialEq, Eq)]
pub enum Kind {
  Perm,
  Temp(bool),
  Dead,
}

#[cfg(kani)]
fn any_kind() -> Kind {
  let k: u8 = kani::any();
  kani::assume(k < 4);
  match k {
    0 => Kind::Perm,
    1 => Kind::Temp(false),
    2 => Kind::Temp(true),
    _ => Kind::Dead,
  }
}

/// A heap whose table has `n` slots holding S[0..n] with the given kinds, and intern maps that
/// satisfy the representation invariant.
pub fn mk_heap(kinds: &[Kind], sweep_index: usize, unmarked: bool) -> Heap {
  let mut heap = Heap {
    str_pointer_table: Vec::new(),
    module_reference_pointer_table: Vec::new(),
    interned_string: HashMap::new(),
    interned_static_str: HashMap::new(),
    interned_module_reference: HashMap::new(),
    unmarked_module_references: HashSet::new(),
    sweep_index,
  };
  for (i, k) in kinds.iter().enumerate() {
    match k {
      Kind::Perm => {
        heap.str_pointer_table.push(StringStoredInHeap::Permanent(S[i]));
        heap.interned_static_str.insert(S[i], i as u32);
      }
      Kind::Temp(m) => {
        heap.str_pointer_table.push(StringStoredInHeap::Temporary(S[i].to_string(), *m));
        heap.interned_string.insert(S[i], i as u32);
      }
      Kind::Dead => heap.str_pointer_table.push(StringStoredInHeap::Deallocated(None)),
    }
  }
  if unmarked {
    heap.unmarked_module_references.insert(ModuleReference(7));
  }
  heap
}

pub fn kind_of(heap: &Heap, i: usize) -> Kind {
  match &heap.str_pointer_table[i] {
    StringStoredInHeap::Permanent(_) => Kind::Perm,
    StringStoredInHeap::Temporary(_, m) => Kind::Temp(*m),
    StringStoredInHeap::Deallocated(_) => Kind::Dead,
  }
}

/// The representation invariant every public operation must preserve.
pub fn invariant(heap: &Heap) -> bool {
  let n = heap.str_pointer_table.len();
  let mut live = 0;
  for i in 0..n {
    match &heap.str_pointer_table[i] {
      StringStoredInHeap::Permanent(s) => {
        if s.len() > 15 {
          live += 1;
          if heap.interned_static_str.get(s) != Some(&(i as u32)) || heap.interned_string.get(s).is_some() {
            return false;
          }
        }
      }
      StringStoredInHeap::Temporary(s, _) => {
        live += 1;
        if heap.interned_string.get(s.as_str()) != Some(&(i as u32)) || heap.interned_static_str.get(s.as_str()).is_some() {
          return false;
        }
      }
      StringStoredInHeap::Deallocated(_) => {}
    }
  }
  // no dangling entries: every intern entry was accounted for above
  heap.interned_static_str.len() + heap.interned_string.len() == live
    && ((n == 0 && heap.sweep_index == 0) || heap.sweep_index < n)
}

#[cfg(kani)]
fn any_state<const N: usize>() -> ([Kind; N], Heap) {
  let mut kinds = [Kind::Dead; N];
  let mut i = 0;
  while i < N {
    kinds[i] = any_kind();
    i += 1;
  }
  let idx: usize = kani::any();
  kani::assume(idx < N);
  let unmarked: bool = kani::any();
  let heap = mk_heap(&kinds, idx, unmarked);
  (kinds, heap)
}

#[cfg(kani)]
#[kani::proof]
#[kani::unwind(22)]
fn gc_sweep_step() {
  const N: usize = 2;
  let (kinds, mut heap) = any_state::<N>();
  let start = heap.sweep_index;
  let unmarked = !heap.unmarked_module_references.is_empty();
  assert!(invariant(&heap));
  let w: usize = kani::any();
  kani::assume(w <= 3);
  heap.sweep(w);
  assert!(invariant(&heap));
  let end = if start + w >= N { N } else { start + w };
  let mut i = 0;
  while i < N {
    let after = kind_of(&heap, i);
    if unmarked || i < start || i >= end {
      // nothing outside the swept window changes; nothing changes at all while modules are unmarked
      assert!(after == kinds[i]);
    } else {
      match kinds[i] {
        Kind::Perm => assert!(after == Kind::Perm),          // permanent strings are never reclaimed
        Kind::Temp(true) => assert!(after == Kind::Temp(false)), // marked: survives, mark cleared
        Kind::Temp(false) => assert!(after == Kind::Dead),   // unmarked temporaries are reclaimed
        Kind::Dead => assert!(after == Kind::Dead),
      }
    }
    if after != Kind::Dead {
      // a live handle still reads back its string
      assert!(PStr(PStrPrivateRepr::from_id(i as u32)).as_str(&heap).len() == S[i].len());
    }
    i += 1;
  }
  if unmarked {
    assert!(heap.sweep_index == start);
  } else {
    assert!(heap.sweep_index == if start + w >= N { 0 } else { start + w });
  }
  kani::cover!(!unmarked && w == 1 && start == 1);
  kani::cover!(unmarked);
  std::mem::forget(heap);
}

#[cfg(kani)]
#[kani::proof]
#[kani::unwind(22)]
fn gc_mark_step() {
  const N: usize = 2;
  let (kinds, mut heap) = any_state::<N>();
  let k: usize = kani::any();
  kani::assume(k < N);
  heap.mark(PStr(PStrPrivateRepr::from_id(k as u32)));
  heap.mark(PStr::LOWER_A); // inline handles are ignored
  assert!(invariant(&heap));
  let mut i = 0;
  while i < N {
    let after = kind_of(&heap, i);
    if i == k {
      match kinds[i] {
        Kind::Temp(_) => assert!(after == Kind::Temp(true)),
        other => assert!(after == other),
      }
    } else {
      assert!(after == kinds[i]);
    }
    i += 1;
  }
  kani::cover!(kinds[k] == Kind::Temp(false));
  std::mem::forget(heap);
}

#[cfg(kani)]
#[kani::proof]
#[kani::unwind(22)]
fn alloc_static_step() {
  // alloc_str_internal (used by alloc_str_for_test and by module-reference creation) from any valid state,
  // for a string that may already be interned as temporary / permanent, be deallocated, or be new
  const N: usize = 2;
  let (kinds, mut heap) = any_state::<N>();
  let which: usize = kani::any();
  kani::assume(which <= N);
  let p = heap.alloc_str_internal(S[which]);
  assert!(invariant(&heap));
  let id = p.0.as_heap_id().unwrap() as usize;
  // the handle reads back the string and the string is now permanent
  assert!(p.as_str(&heap).len() == S[which].len());
  assert!(kind_of(&heap, id) == Kind::Perm);
  if which < N && kinds[which] != Kind::Dead {
    assert!(id == which); // same string => same handle
  } else {
    assert!(id == N); // reclaimed or new string => fresh slot
  }
  // allocating again returns an equal handle
  let q = heap.alloc_str_internal(S[which]);
  assert!(p == q);
  kani::cover!(which < N && kinds[which] == Kind::Temp(false));
  kani::cover!(which < N && kinds[which] == Kind::Dead);
  kani::cover!(which == N);
  std::mem::forget(heap);
}

#[cfg(kani)]
#[kani::proof]
#[kani::unwind(22)]
fn alloc_string_step() {
  const N: usize = 2;
  let (kinds, mut heap) = any_state::<N>();
  let which: usize = kani::any();
  kani::assume(which <= N);
  let p = heap.alloc_string(S[which].to_string());
  assert!(invariant(&heap));
  let id = p.0.as_heap_id().unwrap() as usize;
  assert!(p.as_str(&heap).len() == S[which].len());
  if which < N && kinds[which] != Kind::Dead {
    assert!(id == which);
    assert!(kind_of(&heap, id) == kinds[which]); // allocation does not change mark / generation
  } else {
    assert!(id == N);
    assert!(kind_of(&heap, id) == Kind::Temp(false));
  }
  let q = heap.alloc_string(S[which].to_string());
  assert!(p == q);
  kani::cover!(which < N && kinds[which] == Kind::Dead);
  kani::cover!(which < N && kinds[which] == Kind::Perm);
  std::mem::forget(heap);
}

#[cfg(kani)]
#[kani::proof]
#[kani::unwind(22)]
fn make_permanent_step() {
  const N: usize = 2;
  let (kinds, mut heap) = any_state::<N>();
  let k: usize = kani::any();
  kani::assume(k < N);
  heap.make_string_permanent(PStr(PStrPrivateRepr::from_id(k as u32)));
  assert!(invariant(&heap));
  match kinds[k] {
    Kind::Temp(_) | Kind::Perm => {
      assert!(kind_of(&heap, k) == Kind::Perm);
      assert!(PStr(PStrPrivateRepr::from_id(k as u32)).as_str(&heap).len() == S[k].len());
    }
    Kind::Dead => assert!(kind_of(&heap, k) == Kind::Dead),
  }
  let other = 1 - k;
  assert!(kind_of(&heap, other) == kinds[other]);
  kani::cover!(kinds[k] == Kind::Temp(true));
  std::mem::forget(heap);
}

#[cfg(kani)]
#[kani::proof]
#[kani::unwind(22)]
fn alloc_then_sweep_two_steps() {
  // the two-step history behind "a string promoted to permanent is never reclaimed": promote a temporary
  // through the static path, then let the sweeper pass over it
  let mut heap = mk_heap(&[Kind::Temp(false), Kind::Temp(true)], 0, false);
  let which: usize = kani::any();
  kani::assume(which < 2);
  let p = heap.alloc_str_internal(S[which]);
  heap.sweep(2);
  assert!(invariant(&heap));
  assert!(kind_of(&heap, which) == Kind::Perm);
  assert!(p.as_str(&heap).len() == S[which].len());
  kani::cover!(which == 0);
  std::mem::forget(heap);
}
