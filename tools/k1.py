#!/usr/bin/env python3-vt
"""developer helper: time one Kani harness of a crate in its own scratch slot.
usage: k1.py <checkmodule> <crate> <harness> [timeout]"""
import importlib
import sys
import time

sys.path.insert(0, "/verif")
from vlib import kani  # noqa: E402
from vlib.common import Scratch  # noqa: E402

mod = importlib.import_module("checks." + sys.argv[1])
crate, h = sys.argv[2], sys.argv[3]
to = int(sys.argv[4]) if len(sys.argv) > 4 else 900
with Scratch("dev-" + h) as sc:
    mod.prepare(sc)
    t = time.time()
    res, out = kani.run_harnesses(sc, crate, [h], timeout_s=to, target_tag="k", extra_args=tuple(sys.argv[5:]))
    print(h, round(time.time() - t), res.get(h))
    open("/tmp/kani_%s.out" % h, "w").write(out)
