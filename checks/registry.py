"""property id -> (evidence level, runner)"""
from vlib import ws
from vlib.common import Scratch
from checks import kernels


def _components(a, default):
    if a.only:
        return a.only.split(",")
    return default


import os

# all driver-based checks share one scratch slot (identical injected sources => one incremental build);
# set VERIF_SLOT to run several of them concurrently
def slot(default="ws"):
    return os.environ.get("VERIF_SLOT", default)


def c01(res, tier, a):
    from checks import et
    with Scratch(slot()) as sc:
        ws.inject(sc)
        drv = ws.Driver(ws.build_driver(sc))
        comps = _components(a, ["pipeline", "layout", "laws"])
        cov = {}
        if "pipeline" in comps:
            cov.update(et.run_pipeline(res, tier, sc, drv))
        if "layout" in comps:
            cov.update(et.run_enum_layout(res, tier, sc, drv))
        if "laws" in comps:
            cov.update(et.run_laws(res, tier, sc, drv))
        res.coverage.update(cov)


def c02(res, tier, a):
    comps = _components(a, ["kernels", "et"])
    with Scratch(slot()) as sc:
        ws.inject(sc)
        drv = ws.Driver(ws.build_driver(sc))
        cov = {}
        if "kernels" in comps:
            k = kernels.Kernels(sc, drv, res, tier, props=("C02",))
            k.load(ws)
            cov.update(k.run_all())
        if "et" in comps:
            from checks import et
            cov.update(et.run_mir_opt(res, tier, sc, drv))
        res.coverage.update(cov)
        res.coverage.setdefault("programs", 0)
        res.coverage["disagreements_checked"] = cov.get("kernel_obligations", 0) + cov.get("et", {}).get("pairs", 0)


def c03(res, tier, a):
    comps = _components(a, ["kernels", "modules", "generated", "runtime", "traps"])
    with Scratch(slot()) as sc:
        ws.inject(sc)
        drv = ws.Driver(ws.build_driver(sc))
        cov = {}
        if "kernels" in comps:
            k = kernels.Kernels(sc, drv, res, tier, props=("C03",))
            k.load(ws)
            cov.update(k.run_all())
        if "modules" in comps:
            from checks import et
            cov.update(et.run_module_validity(res, tier, sc, drv))
        if "generated" in comps:
            from checks import et
            cov.update(et.run_generated_accept_set(res, tier, sc, drv))
        if "runtime" in comps:
            from checks import et
            cov.update(et.run_runtime_traps(res, tier, sc, drv))
        if "traps" in comps:
            from checks import et
            cov.update(et.run_trap_freedom(res, tier, sc, drv))
        res.coverage.update(cov)
        res.coverage["states"] = max(1, sum(e["paths"] for e in cov.get("kernels_encoded", [])))
        res.coverage["transitions"] = max(1, cov.get("kernel_obligations", 0) + len(cov.get("kernels_encoded", [])))
        res.coverage["traces_validated_against_impl"] = cov.get("translator_validation_points", 0)
        res.coverage["explanation"] = "states = MIR paths of the encoded kernels; transitions = panic-reachability obligations + kernels; every MIR assert/panic block is an obligation"


def c04(res, tier, a):
    from checks import c04 as m
    comps = _components(a, ["ops", "runtime", "strings", "lirwat", "lirts"])
    with Scratch(slot()) as sc:
        ws.inject(sc)
        drv = ws.Driver(ws.build_driver(sc))
        cov = {}
        if "ops" in comps:
            k = kernels.Kernels(sc, drv, res, tier, props=())
            cov.update(m.run_ops(res, tier, drv, k.constructed_operators()))
        if "runtime" in comps:
            cov.update(m.run_runtime(res, tier, sc, drv))
            cov.update(m.run_vec_runtime(res, tier, sc, drv))
        if "strings" in comps:
            cov.update(m.run_string_constants(res, tier, sc, drv))
        if "lirwat" in comps:
            from checks import et
            cov.update(et.run_lirwat(res, tier, sc, drv))
        if "lirts" in comps:
            from checks import et
            cov.update(et.run_lirts(res, tier, sc, drv))
        res.coverage.update(cov)
        res.coverage["states"] = max(1, cov.get("operator_obligations", 0) + cov.get("runtime_obligations", 0) + cov.get("vec_runtime", {}).get("obligations", 0))
        res.coverage["transitions"] = max(1, cov.get("operator_obligations", 0) + cov.get("runtime_obligations", 0) + cov.get("vec_runtime", {}).get("obligations", 0))
        res.coverage["traces_validated_against_impl"] = 0
        res.coverage["explanation"] = "one obligation per operator over all pairs of i32 operands"


def c06(res, tier, a):
    from checks import c06 as m
    with Scratch(slot()) as sc:
        ws.inject(sc)
        drv = ws.Driver(ws.build_driver(sc))
        m.run(res, tier, sc, drv, ws)


def c07(res, tier, a):
    from checks import c07 as m
    with Scratch(slot()) as sc:
        ws.inject(sc)
        drv = ws.Driver(ws.build_driver(sc))
        m.run(res, tier, sc, drv)


def c05(res, tier, a):
    from checks import c14 as m
    m.run(res, tier, a, "C05")


def c14(res, tier, a):
    from checks import c14 as m
    m.run(res, tier, a, "C14")


def c18(res, tier, a):
    from checks import c18 as m
    with Scratch(slot()) as sc:
        ws.inject(sc)
        drv = ws.Driver(ws.build_driver(sc))
        m.run(res, tier, sc, drv)


def c17(res, tier, a):
    from checks import c17 as m
    m.run(res, tier, a)


CHECKS = {
    "C05": ("model_checking", c05),
    "C14": ("model_checking", c14),
    "C17": ("model_checking", c17),
    "C18": ("model_checking", c18),
    "C04": ("model_checking", c04),
    "C06": ("model_checking", c06),
    "C07": ("other", c07),
    "C01": ("translation_validation", c01),
    "C02": ("translation_validation", c02),
    "C03": ("model_checking", c03),
}
