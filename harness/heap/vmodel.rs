// Container model (Kani only): association-vector HashMap / HashSet with the method subset
// samlang-heap uses.  Environment model: assumes std's maps are correct finite maps; iteration
// order is insertion order.  Swapped in for `std::collections::{HashMap, HashSet}` in the scratch
// copy of samlang-heap by a rewrite of the `use` item only (see checks/c17.py).
#![allow(dead_code)]
use std::borrow::Borrow;

pub struct HashMap<K, V> {
  pub entries: Vec<(K, V)>,
}

impl<K: Eq, V> HashMap<K, V> {
  pub fn new() -> Self {
    HashMap { entries: Vec::new() }
  }
  pub fn get<Q: ?Sized + Eq>(&self, k: &Q) -> Option<&V>
  where
    K: Borrow<Q>,
  {
    for (kk, v) in self.entries.iter() {
      if kk.borrow() == k {
        return Some(v);
      }
    }
    None
  }
  pub fn contains_key<Q: ?Sized + Eq>(&self, k: &Q) -> bool
  where
    K: Borrow<Q>,
  {
    self.get(k).is_some()
  }
  pub fn insert(&mut self, k: K, v: V) -> Option<V> {
    for e in self.entries.iter_mut() {
      if e.0 == k {
        return Some(std::mem::replace(&mut e.1, v));
      }
    }
    self.entries.push((k, v));
    None
  }
  pub fn remove<Q: ?Sized + Eq>(&mut self, k: &Q) -> Option<V>
  where
    K: Borrow<Q>,
  {
    let mut idx = None;
    for (i, (kk, _)) in self.entries.iter().enumerate() {
      if kk.borrow() == k {
        idx = Some(i);
        break;
      }
    }
    idx.map(|i| self.entries.swap_remove(i).1)
  }
  pub fn len(&self) -> usize {
    self.entries.len()
  }
  pub fn is_empty(&self) -> bool {
    self.entries.is_empty()
  }
  pub fn with_capacity(_n: usize) -> Self {
    HashMap { entries: Vec::new() }
  }
  pub fn get_mut<Q: ?Sized + Eq>(&mut self, k: &Q) -> Option<&mut V>
  where
    K: Borrow<Q>,
  {
    for e in self.entries.iter_mut() {
      if e.0.borrow() == k {
        return Some(&mut e.1);
      }
    }
    None
  }
  pub fn clear(&mut self) {
    self.entries.clear()
  }
  pub fn keys(&self) -> impl Iterator<Item = &K> {
    self.entries.iter().map(|e| &e.0)
  }
  pub fn values(&self) -> impl Iterator<Item = &V> {
    self.entries.iter().map(|e| &e.1)
  }
  pub fn iter(&self) -> impl Iterator<Item = (&K, &V)> {
    self.entries.iter().map(|e| (&e.0, &e.1))
  }
  /// like std: whatever the caller does with the iterator, the map is empty once it is dropped
  pub fn drain(&mut self) -> std::vec::Drain<'_, (K, V)> {
    self.entries.drain(..)
  }
  pub fn retain<F: FnMut(&K, &mut V) -> bool>(&mut self, mut f: F) {
    self.entries.retain_mut(|e| f(&e.0, &mut e.1))
  }
}

pub struct HashSet<K> {
  pub entries: Vec<K>,
}

impl<K: Eq> HashSet<K> {
  pub fn new() -> Self {
    HashSet { entries: Vec::new() }
  }
  pub fn insert(&mut self, k: K) -> bool {
    if self.entries.iter().any(|e| *e == k) {
      false
    } else {
      self.entries.push(k);
      true
    }
  }
  pub fn remove(&mut self, k: &K) -> bool {
    let mut idx = None;
    for (i, kk) in self.entries.iter().enumerate() {
      if kk == k {
        idx = Some(i);
        break;
      }
    }
    if let Some(i) = idx {
      self.entries.swap_remove(i);
      true
    } else {
      false
    }
  }
  pub fn contains(&self, k: &K) -> bool {
    self.entries.iter().any(|e| e == k)
  }
  pub fn is_empty(&self) -> bool {
    self.entries.is_empty()
  }
  pub fn iter(&self) -> std::slice::Iter<'_, K> {
    self.entries.iter()
  }
  pub fn with_capacity(_n: usize) -> Self {
    HashSet { entries: Vec::new() }
  }
  pub fn len(&self) -> usize {
    self.entries.len()
  }
  pub fn clear(&mut self) {
    self.entries.clear()
  }
  /// like std: whatever the caller does with the iterator, the set is empty once it is dropped
  pub fn drain(&mut self) -> std::vec::Drain<'_, K> {
    self.entries.drain(..)
  }
  pub fn take(&mut self, k: &K) -> Option<K> {
    let mut idx = None;
    for (i, kk) in self.entries.iter().enumerate() {
      if kk == k {
        idx = Some(i);
        break;
      }
    }
    idx.map(|i| self.entries.swap_remove(i))
  }
  pub fn retain<F: FnMut(&K) -> bool>(&mut self, f: F) {
    self.entries.retain(f)
  }
}
