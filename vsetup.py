#!/usr/bin/env python3-vt
"""MANIFEST.setup_cmd: nothing persistent has to be built -- every check regenerates its
encoding from /repo in a scratch copy.  This only verifies that the tools the checks need exist."""
import shutil
import subprocess
import sys
missing = [t for t in ("cargo", "rsync", "z3", "cvc5", "python3-vt") if shutil.which(t) is None]
try:
    subprocess.run(["cargo", "kani", "--version"], capture_output=True, check=True)
except Exception:
    missing.append("cargo-kani")
try:
    subprocess.run(["cargo", "+nightly", "--version"], capture_output=True, check=True)
except Exception:
    missing.append("nightly toolchain")
if missing:
    print("missing tools:", missing)
    sys.exit(1)
print("setup ok")
