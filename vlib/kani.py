"""E-K: run Kani harnesses that live in /verif/harness inside the scratch copy of a crate."""
import os
import re
import subprocess
import time

from .common import Inconclusive, run, log, OFFLINE_ENV


def run_harnesses(sc, crate, harnesses, timeout_s=900, mem_gb=24, extra_args=(), target_tag="kani", jobs=1):
    """-> dict harness -> {"status": SUCCESS|FAILURE|..., "failed_checks": [...], "covers": {sat:int, unsat:int}, "time": s}"""
    target = os.path.join(sc.root, "target-" + target_tag)
    cmd = ["cargo", "kani", "-p", crate, "--target-dir", target, "--output-format", "regular"]
    for h in harnesses:
        cmd += ["--harness", h]
    if jobs > 1:
        cmd += ["-j", str(jobs)]
    cmd += list(extra_args)
    env = dict(os.environ)
    env.update(OFFLINE_ENV)
    t0 = time.time()
    # no `ulimit -v`: CBMC's SAT back end reports "out of memory" against the *virtual* size long before the
    # resident set matters; runs are bounded by the timeout instead (62 GB machine, harnesses peak at 2-4 GB)
    shell = "exec %s" % " ".join("'%s'" % c for c in cmd)
    try:
        p = subprocess.run(["bash", "-c", shell], cwd=sc.w, env=env, capture_output=True, text=True, timeout=timeout_s)
    except subprocess.TimeoutExpired as e:
        out = (e.stdout or b"").decode() if isinstance(e.stdout, bytes) else (e.stdout or "")
        res = parse(out)
        for h in harnesses:
            res.setdefault(h, {"status": "TIMEOUT", "failed_checks": [], "covers": {}, "time": timeout_s})
        return res, out
    out = p.stdout + "\n" + p.stderr
    res = parse(out)
    if not res and p.returncode != 0:
        raise Inconclusive("cargo kani failed to build/run for %s:\n%s" % (crate, out[-3000:]))
    for h in harnesses:
        res.setdefault(h, {"status": "MISSING", "failed_checks": [], "covers": {}, "time": 0})
    return res, out


def parse(out):
    res = {}
    cur = None
    for ln in out.split("\n"):
        m = re.match(r"^Checking harness (\S+?)\.\.\.", ln)
        if m:
            cur = m.group(1).split("::")[-1]
            res[cur] = {"status": "UNKNOWN", "failed_checks": [], "covers": {"satisfied": 0, "unsatisfiable": 0, "unreachable": 0}, "time": None,
                        "full_name": m.group(1)}
            continue
        if cur is None:
            continue
        m = re.match(r"^VERIFICATION:- (\w+)", ln)
        if m:
            res[cur]["status"] = m.group(1)
            continue
        m = re.match(r"^Verification Time: ([\d.]+)s", ln)
        if m:
            res[cur]["time"] = float(m.group(1))
            continue
        m = re.match(r"^Failed Checks: (.*)$", ln)
        if m:
            res[cur]["failed_checks"].append(m.group(1))
            continue
        m = re.match(r"^\s*- Status: (SATISFIED|UNSATISFIABLE|UNREACHABLE)", ln)
        if m and res[cur].get("_in_cover"):
            res[cur]["covers"][m.group(1).lower()] = res[cur]["covers"].get(m.group(1).lower(), 0) + 1
            res[cur]["_in_cover"] = False
            continue
        if re.match(r"^Check \d+: .*\.cover\.\d+", ln):
            res[cur]["_in_cover"] = True
        elif ln.startswith("Check "):
            res[cur]["_in_cover"] = False
        m = re.match(r"^ \*\* (\d+) of (\d+) cover properties satisfied", ln)
        if m:
            res[cur]["covers_summary"] = (int(m.group(1)), int(m.group(2)))
        if "Status: ERROR" in ln or "CBMC failed" in ln or "out of memory" in ln.lower():
            res[cur]["status"] = "ERROR"
    for v in res.values():
        v.pop("_in_cover", None)
    return res
