"""C06 (in part): the integer-literal fault class, decided for ALL literal values and ALL kinds of
pending token by symbolic execution of the rustc MIR of `TokenProducer::process_raw_token`.

The digit string is abstracted by what `str::parse::<i64>` returns (environment stub with its
documented contract): Ok(v) with 0 <= v < 2^63 the literal's value, or Err when the value does not
fit in i64.  `report_invalid_syntax_error`, `alloc_string`, `format!`, `Location::union` are
environment stubs recorded as events.  Assertions, per path:
  * value > i32::MAX and not (value == 2^31 right after a `-`)  =>  an error is reported
  * value <= i32::MAX  =>  no error, the token is passed through unchanged
  * value == 2^31 right after `-`  =>  no error, the two tokens are merged (pending replaced by one
    IntLiteral, nothing yielded)
and the gate: compile_sources returns Err for a program containing such a literal (real pipeline,
concrete instances of every path class).
"""
import glob
import json
import os

import z3

from vlib import mir, smt
from vlib.common import Inconclusive
from vlib.mir import Lazy, Adt, Sc, Ref

STUBS = [
    (r"^PStr::as_str$", "as_str"),
    (r"^core::str::<impl str>::parse::<i64>$", "parse_i64"),
    (r"^<str as ToString>::to_string$", "to_string"),
    (r"ErrorSet::report_invalid_syntax_error$", "report_error"),
    (r"Location::union$", "loc_union"),
    (r"^core::fmt::rt::Argument::<'_>::new_display", "fmt_arg"),
    (r"^Arguments::<'_>::new", "fmt_args"),
    (r"^std::fmt::format$", "format"),
    (r"^must_use::<", "must_use"),
    (r"Heap::alloc_string$", "alloc_string"),
]


def run(res, tier, sc, drv, ws):
    defs = mir.RustDefs()
    defs.load_source(open(os.path.join(sc.w, "crates/samlang-parser/src/lexer.rs")).read())
    fns = mir.parse_dump(ws.mir_dump(sc, "samlang-parser", False), "parser")
    cands = [f for n, f in fns.items() if n.endswith("::process_raw_token")]
    if len(cands) != 1:
        raise Inconclusive("encoding could not be regenerated: process_raw_token not found in the MIR dump")
    f = cands[0]
    for en in ("TokenContent", "TokenOp"):
        if en not in defs.enums:
            raise Inconclusive("enum %s not found in lexer.rs" % en)
    INT_LIT = defs.variant_index("TokenContent", "IntLiteral")
    OPERATOR = defs.variant_index("TokenContent", "Operator")
    MINUS = defs.variant_index("TokenOp", "Minus")
    ex = mir.Exec(fns, defs)
    ex.opaque_calls = STUBS
    ex.opaque_types = {"PStr", "Location", "Heap", "ErrorSet", "WrappedLogosLexer", "String", "str"}
    args = [Lazy(t, n) for (p, t), n in zip(f.params, ["self", "tok", "heap", "errs"])]
    try:
        paths = ex.run_fn(f, args, [])
    except mir.Untranslatable as e:
        raise Inconclusive("process_raw_token can no longer be translated: %s" % e)
    # symbolic inputs (names fixed by the Lazy naming scheme)
    tok_kind = z3.BitVec("tok.v0.f1.discr", 64)
    pend_some = z3.BitVec("self.*.v0.f1.discr", 64)            # Option<Token>
    pend_kind = z3.BitVec("self.*.v0.f1.v1.f0.v0.f1.discr", 64)  # TokenContent of the pending token
    pend_op = z3.BitVec("self.*.v0.f1.v1.f0.v0.f1.v%d.f0.discr" % OPERATOR, 64)
    obligations = 0
    discharged = 0
    classes = {"passes_through": 0, "reports": 0, "merges": 0, "non_literal": 0}
    samples = []
    for p in paths:
        if p.outcome[0] != "return":
            obligations += 1
            r, model, info = smt.check(p.pc, timeout_s=30, cross=True)
            if r == "sat":
                res.violation("process_raw_token can panic: %s" % (p.outcome,), {"property": "C06", "path": [str(c) for c in p.pc]})
            elif r == "unsat":
                discharged += 1
            else:
                res.inconc("solver inconclusive on a panic path of process_raw_token")
            continue
        evs = [e[0] for e in p.events]
        reported = "report_error" in evs
        merged = "alloc_string" in evs
        ret = p.outcome[1]
        # the parse result of this path
        parse_ev = [e for e in p.events if e[0] == "parse_i64"]
        st = p.state
        is_lit = tok_kind == INT_LIT
        if not parse_ev:
            # not an IntLiteral: must be passed through untouched and silently
            obligations += 1
            bad = z3.Or(z3.BoolVal(reported), z3.BoolVal(merged), z3.BoolVal(not (isinstance(ret.discr, int) and ret.discr == 1)))
            r, model, info = smt.check(p.pc + [bad], timeout_s=30, cross=True)
            if r == "unsat":
                discharged += 1
                classes["non_literal"] += 1
            elif r == "sat":
                res.violation("a token that is not an integer literal is not passed through unchanged", {"property": "C06", "events": evs, "path": [str(c) for c in p.pc]})
            else:
                res.inconc("solver inconclusive (non-literal path)")
            continue
        # find the stub's result variable names:  parse_i64!k.discr (0 = Ok, 1 = Err) and payload
        import re
        nm = None
        for c in p.pc:
            m = re.search(r"(parse_i64!\d+)\.discr", str(c))
            if m:
                nm = m.group(1)
        if nm is None:
            raise Inconclusive("translator: parse result not inspected on a literal path")
        is_err = z3.BitVec(nm + ".discr", 64) == 1
        v = z3.BitVec(nm + ".v0.f0", 64)
        # contract of str::parse::<i64> on a digit string: Ok(v) => 0 <= v
        contract = z3.Implies(z3.Not(is_err), v >= 0)
        after_minus = z3.And(pend_some == 1, pend_kind == OPERATOR, pend_op == MINUS)
        too_big = z3.Or(is_err, v > z3.BitVecVal(2147483647, 64))
        is_min = z3.And(z3.Not(is_err), v == z3.BitVecVal(2147483648, 64))
        should_merge = z3.And(is_min, after_minus)
        should_report = z3.And(too_big, z3.Not(should_merge))
        ret_some = isinstance(ret.discr, int) and ret.discr == 1
        # final value of self.pending on this path
        pend_after = None
        try:
            selfref = st["frames"][st["fid"]].get("_1")
            tp = ex.read_path(selfref, [("deref",)], st)
            pend_after = ex.field_get(tp, 0, 1, "Option<Token>", st)
        except Exception:
            pend_after = None
        merged_ok = False
        if pend_after is not None and isinstance(pend_after, Adt) and isinstance(pend_after.discr, int) and pend_after.discr == 1:
            t = pend_after.variants[1].get(0)
            if isinstance(t, Adt) and 1 in t.variants[0]:
                tc = t.variants[0][1]
                merged_ok = isinstance(tc, Adt) and tc.discr == INT_LIT
        obligations += 1
        conds = [
            should_report != z3.BoolVal(reported),
            should_merge != z3.BoolVal(merged),
            z3.And(should_merge, z3.BoolVal(not (merged_ok and not ret_some))),
            z3.And(z3.Not(should_merge), z3.BoolVal(not ret_some)),
        ]
        r, model, info = smt.check(p.pc + [contract, z3.Or(*conds)], timeout_s=30, cross=True)
        desc = {"events": evs, "returns_some": ret_some, "path": [str(c) for c in p.pc][-6:]}
        if r == "unsat":
            discharged += 1
            classes["merges" if merged else ("reports" if reported else "passes_through")] += 1
            if len(samples) < 8:
                samples.append(desc)
        elif r == "sat":
            wit = {"value": "unparsable (>= 2^63)" if z3.is_true(model.eval(is_err, model_completion=True)) else model.eval(v, model_completion=True).as_signed_long(),
                   "pending_is_some": model.eval(pend_some, model_completion=True).as_long(),
                   "pending_kind": model.eval(pend_kind, model_completion=True).as_long(),
                   "pending_op": model.eval(pend_op, model_completion=True).as_long(),
                   "reported": reported, "merged": merged, "returns_some": ret_some}
            # replay through the real pipeline: a program with that literal after that kind of token
            ok, detail = replay(drv, sc, wit, OPERATOR, MINUS)
            if ok:
                res.violation("integer literal handling: %s" % wit, {"property": "C06", "witness": wit, "program": detail})
            else:
                res.inconc("witness %s did not replay through compile_sources: %s" % (wit, detail))
        else:
            res.inconc("solver inconclusive on a literal path: %s" % info)
    # gate: concrete instances through the real compile_sources
    gate = []
    for lit, pre, expect_reject in (("2147483647", "", False), ("2147483648", "", True), ("2147483648", "1 + ", True), ("2147483648", "0 - ", True),
                                    ("2147483648", "-", False), ("99999999999", "", True), ("9223372036854775808", "1 * ", True),
                                    ("2147483649", "-", True), ("0", "", False)):
        prog = "class Main { function main(): unit = { let x: int = %s%s; Process.println(Str.fromInt(x)) } }\n" % (pre, lit)
        st_ = compile_status(drv, sc, prog)
        gate.append({"expr": pre + lit, "status": st_, "expected": "rejected" if expect_reject else "ok"})
        if (st_ == "rejected") != expect_reject:
            res.violation("compile_sources %s `%s%s`" % ("accepts" if expect_reject else "rejects", pre, lit), {"property": "C06", "program": prog, "status": st_})
    # reject corpus: one program per fault class of the property, each must be rejected by the real compile_sources.
    # This is a gate (concrete programs), not a solver verdict; it is listed separately in the evidence.
    import glob
    from vlib.common import VERIF
    rejects = []
    for fpath in sorted(glob.glob(os.path.join(VERIF, "corpus_reject", "*.sam"))):
        prog = open(fpath).read()
        st_ = compile_status(drv, sc, prog)
        rejects.append({"program": os.path.basename(fpath), "status": st_})
        if st_ != "rejected":
            res.violation("compile_sources %s the ill-formed program %s" % ("accepts" if st_ == "ok" else "answers %s for" % st_, os.path.basename(fpath)),
                          {"property": "C06", "program": prog, "status": st_, "file": fpath})
    gen_rows = {"contexts": len(GEN_CONTEXTS), "faults": len(GEN_FAULTS), "declaration_faults": len(DECL_FAULTS), "programs": 0, "rejected": 0, "contexts_accepted": 0}
    gen_rows["module_faults"] = len(MODULE_FAULTS)
    from vlib.common import load_known
    known_faults = {k["fault"]: k for k in load_known("C06") if k.get("fault")}
    for name, prog, must in generated_rejects() + declaration_rejects() + module_rejects():
        st_ = compile_status(drv, sc, prog, lib=MOD_LIB if name.startswith("module") else None)
        gen_rows["programs"] += 1
        if must == "ok":
            if st_ != "ok":
                res.inconc("reject corpus: the context %s is itself not accepted (%s); its faults prove nothing" % (name, st_))
            else:
                gen_rows["contexts_accepted"] += 1
        elif st_ == "rejected":
            gen_rows["rejected"] += 1
        elif name in known_faults:
            res.known("%s %s" % (known_faults[name]["id"], known_faults[name]["short"]))
        else:
            res.violation("compile_sources %s an ill-formed program (fault@context %s)" % ("accepts" if st_ == "ok" else "answers %s for" % st_, name),
                          {"property": "C06", "program": prog, "status": st_, "fault_at_context": name, "library_module": MOD_LIB if name.startswith("module") else None})
    res.coverage["reject_corpus"] = rejects
    res.coverage["generated_reject_corpus"] = gen_rows
    res.coverage.update({
        "states": len(paths), "transitions": obligations, "traces_validated_against_impl": len(gate) + len(rejects) + gen_rows["programs"],
        "obligations": obligations, "discharged": discharged, "path_classes": classes,
        "functions_encoded": [f.name], "gate_programs": gate, "solver_stats": dict(smt.STATS),
        "explanation": "states = MIR paths of process_raw_token; every path is one obligation over all literal values and pending-token kinds",
    })
    for s_ in samples:
        res.sample(s_)
    res.assumptions += [
        "environment stubs (listed in checks/c06.py STUBS): str::parse::<i64> returns Ok(v>=0) or Err; report_invalid_syntax_error records a diagnostic; format!/alloc_string/Location::union are opaque",
        "only the integer-literal fault class of C06 is decided; type-level fault classes are outside the claim (DESIGN.md C06)",
    ]


# ---- generated reject corpus: every fault in every expression context ---------------------------------------
# A fault is an ill-formed expression of (intended) type int; a context is a well-formed program with a hole of type
# int.  Every fault x context must be rejected by the real front end, and every context filled with `7` must be
# accepted (so the context itself is not what gets rejected).  Checking positions matter: an argument of a generic
# call is checked in synthesis mode, a lambda body against an expected type, etc.
GEN_PRELUDE = """import { Option } from std.option;
import { Pair, Triple } from std.tuples;
interface Ordered<T> { method compare(other: T): int }
class Meter(val v: int) : Ordered<Meter> { method compare(other: Meter): int = this.v - other.v }
class Plain(val v: int) {}
class Cmp {
  function <C: Ordered<C>> maxV(a: C, b: C): int = a.compare(b)
  function <C: Ordered<C>> maxOf(a: C, b: C): C = if a.compare(b) < 0 { b } else { a }
  function <C: Ordered<C>> key(a: C): int = a.compare(a)
}
class Cell<T>(val content: T) {
  function <T> of(content: T): Cell<T> = Cell.init(content)
  method <R> fold(start: R, f: (R, T) -> R): R = f(start, this.content)
}
class Secret { private function hidden(): int = 1 }
class Helper {
  function one(a: int): int = a
  function plainV(p: Plain): int = p.v
  function two(a: int, b: int): int = a + b
  function <T> id(t: T): T = t
  function apply(f: (int) -> int): int = f(1)
  function <T> applyTwice(x: T, f: (T) -> T): T = f(f(x))
  function <A, B> mapWith(a: A, b: B, f: (A) -> B): B = f(a)
  function cellInt(c: Cell<int>): int = c.content
  function twoIntStr(t: Two<int, Str>): int = t.a
  function cellFn(c: Cell<(int) -> int>): int = 1
  function pairFirst(p: Pair<int, int>): int = p.e0
  function tripleSum(t: Triple<int, int, int>): int = t.e0 + t.e1 + t.e2
  function optInt(o: Option<int>): int = 1
  function three(n: int): Three = if n > 1 { Three.A3() } else { if n > 0 { Three.B3() } else { Three.C3() } }
}
class Three(A3, B3, C3) {}
class Two<A, B>(val a: A, val b: B) {}
"""
GEN_FAULTS = {
    "bound_inferred": "Cmp.maxV(Plain.init(1), Plain.init(2))",
    "bound_explicit": "Cmp.maxV<Plain>(Plain.init(1), Plain.init(2))",
    "bound_result_used": "Cmp.maxOf(Plain.init(1), Plain.init(2)).v",
    "bound_function_value_under_hint": "{ let g: (Plain) -> int = Cmp.key; g(Plain.init(1)) }",
    "field_on_class_object": "Plain.v",
    # the class itself where an instance is expected
    "class_object_as_argument": "Helper.plainV(Plain)",
    "class_object_as_branch": "Helper.plainV(if Helper.one(1) > 9 { Plain.init(1) } else { Plain })",
    "class_object_under_bound": "Cmp.key(Meter)",
    "class_object_under_bound_explicit": "Cmp.key<Meter>(Meter)",
    "class_object_in_generic_container": "Helper.plainV(Cell.of(Plain).content)",
    "operand_type": '(1 + "a")',
    "unknown_member": "Plain.init(1).nope",
    "arity": "Helper.two(1)",
    "argument_type": 'Helper.two(1, "x")',
    "unresolved_variable": "undefinedVariable",
    "unresolved_class": "Nope.f()",
    "private_member": "Secret.hidden()",
    "condition_not_bool": "(if 1 { 1 } else { 2 })",
    "branch_mismatch": '(if true { 1 } else { "s" })',
    "non_exhaustive_match": "(match Option.Some(1) { Some(x) -> x })",
    "refutable_let": "{ let Some(y) = Option.Some(1); y }",
    "call_non_function": "{ let n = 1; n(2) }",
    "type_args_arity": "Helper.id<int, int>(1)",
    "literal_range": "2147483648",
    "duplicate_binding": "{ let a = 1; let a = 2; a }",
    "wrong_result_type": '"text"',
    "unit_as_int": "Process.println(\"x\")",
    # the type system core: assignability of nominal types with type arguments, function types, tuples
    "type_argument_mismatch": "Helper.cellInt(Cell.init(true))",
    "second_type_argument_mismatch": "Helper.twoIntStr(Two.init(1, 2))",
    "lambda_parameter_count": "Helper.apply((x, y) -> x)",
    "lambda_return_type": "Helper.apply((x) -> true)",
    # a contextually typed lambda handed to a GENERIC callee whose type parameters the other arguments already fix
    "generic_lambda_return_type_fixed_by_argument": 'Helper.applyTwice(20, (x) -> "oops")',
    "generic_lambda_return_type_fixed_by_two_arguments": "Helper.mapWith(true, 3, (x) -> x)",
    "generic_method_lambda_return_type": 'Cell.init("s").fold(1, (acc, s) -> acc == 41)',
    "generic_lambda_parameter_misused": "Helper.applyTwice(20, (x) -> if x { 1 } else { 2 })",
    # an explicit parameter annotation that contradicts the function type expected at the use site
    "annotated_lambda_parameter_contradicts_callee": "Helper.apply((x: bool) -> 41)",
    "annotated_lambda_parameter_contradicts_let": "{ let f: (int) -> int = (x: bool) -> 41; f(1) }",
    "function_type_inside_type_argument": "Helper.cellFn(Cell.init((x: int) -> true))",
    "tuple_arity": "Helper.pairFirst((1, 2, 3))",
    "tuple_third_component": 'Helper.tripleSum((1, 2, "x"))',
    "option_payload_mismatch": "Helper.optInt(Option.Some(true))",
    "bool_for_int": "Helper.one(true)",
    "else_if_middle_branch": '(if Helper.one(1) > 9 { 1 } else if Helper.one(2) > 8 { "s" } else if Helper.one(3) > 7 { 3 } else { 4 })',
    "else_if_first_branch": '(if Helper.one(1) > 9 { "s" } else if Helper.one(2) > 8 { 2 } else { 3 })',
    "else_if_nested_type_argument": "Helper.cellInt(if Helper.one(1) > 9 { Cell.init(1) } else if Helper.one(2) > 8 { Cell.init(true) } else if Helper.one(3) > 7 { Cell.init(3) } else { Cell.init(4) })",
    "match_arm_type": '(match Option.Some(1) { Some(x) -> x, None -> "s" })',
    "match_middle_arm_type": "(match Helper.three(1) { A3 -> 1, B3 -> true, C3 -> 3 })",
    "int_for_bool_operand": "(if 1 + (if true && 3 { 1 } else { 2 }) > 0 { 1 } else { 2 })",
}
GEN_CONTEXTS = {
    "statement": "class Main { function main(): unit = { let _ = HOLE; } }",
    "call_argument": "class Main { function main(): unit = { let _ = Helper.one(HOLE); } }",
    "generic_call_argument": "class Main { function main(): unit = { let _ = Cell.of(HOLE); } }",
    "nested_generic_call_argument": "class Main { function main(): unit = { let _ = Cell.of(Cell.of(HOLE)); } }",
    "generic_id_then_call": "class Main { function main(): unit = { let _ = Helper.one(Helper.id(HOLE)); } }",
    "annotated_lambda_body": "class Main { function main(): unit = { let f = (x: int) -> HOLE; let _ = f(1); } }",
    "checked_lambda_body": "class Main { function main(): unit = { let _ = Helper.apply((y) -> HOLE); } }",
    "lambda_in_generic_call": "class Main { function main(): unit = { let _ = Cell.of((y: int) -> HOLE); } }",
    "if_branch": "class Main { function main(): unit = { let _ = if true { HOLE } else { 0 }; } }",
    "match_arm": "class Main { function main(): unit = { let _ = match Option.Some(1) { Some(x) -> HOLE, None -> 0 }; } }",
    "constructor_field": "class Main { function main(): unit = { let _ = Plain.init(HOLE); } }",
    "binary_operand": "class Main { function main(): unit = { let _ = 1 + HOLE; } }",
    "block_local": "class Main { function main(): unit = { let _ = { let z = HOLE; z }; } }",
    "function_body": "class Main { function g(): int = HOLE  function main(): unit = { let _ = Main.g(); } }",
    "method_body": "class W(val a: int) { method m(): int = HOLE }\nclass Main { function main(): unit = { let _ = W.init(1).m(); } }",
    "option_payload": "class Main { function main(): unit = { let _ = Option.Some(HOLE); } }",
}
# (fault, context) pairs in which the hole is not constrained to int, so a well-typed non-int fault is legal there
GEN_UNCONSTRAINED = {"statement", "generic_call_argument", "nested_generic_call_argument", "annotated_lambda_body", "lambda_in_generic_call",
                     "block_local", "option_payload"}
GEN_NEEDS_INT = {"wrong_result_type", "unit_as_int"}


def generated_rejects():
    """-> [(name, program, must_be)]"""
    out = []
    for cn, ctx in GEN_CONTEXTS.items():
        out.append(("ctx:%s" % cn, GEN_PRELUDE + ctx.replace("HOLE", "7") + "\n", "ok"))
        for fn, fault in GEN_FAULTS.items():
            if fn in GEN_NEEDS_INT and cn in GEN_UNCONSTRAINED:
                continue
            out.append(("%s@%s" % (fn, cn), GEN_PRELUDE + ctx.replace("HOLE", fault) + "\n", "rejected"))
    return out


# ---- declaration-level faults: (ill-formed program, well-formed twin).  The twin differs only in the repaired
# declaration and must be accepted, so that the rejection is due to the fault and not to the surrounding program.
DECL_MAIN = "class Main { function main(): unit = {  } }\n"
DECL_FAULTS = {
    # a method's own type parameter has the name of the type parameter the caller instantiates the class with
    "argument_type_hidden_by_type_parameter_capture": (
        "class Box<T>(val v: T) { method <A> pair(a: A, t: T): int = 1 }\nclass Use { function <A> f(b: Box<A>, x: A): int = b.pair(1, 2) }\n",
        # (the twin renames the method's parameter: with the clash even the well-typed call b.pair(1, x) is refused)
        "class Box<T>(val v: T) { method <C> pair(a: C, t: T): int = 1 }\nclass Use { function <A> f(b: Box<A>, x: A): int = b.pair(1, x) }\n"),
    # one generic interface reached twice with different type arguments: each instantiation constrains the member
    "conformance_second_instantiation_via_interfaces": (
        "interface Producer<T> { method produce(): T }\ninterface IntP : Producer<int> {}\ninterface BoolP : Producer<bool> {}\n"
        "class One(val v: int) : IntP, BoolP { method produce(): int = this.v }\n",
        "interface Producer<T> { method produce(): T }\ninterface IntP : Producer<int> {}\ninterface BoolP : Producer<bool> {}\n"
        "class One(val v: int) : IntP { method produce(): int = this.v }\n"),
    "conformance_second_instantiation_direct": (
        "interface Producer<T> { method produce(): T }\nclass One(val v: int) : Producer<int>, Producer<bool> { method produce(): int = this.v }\n",
        "interface Producer<T> { method produce(): T }\nclass One(val v: int) : Producer<int> { method produce(): int = this.v }\n"),
    "conformance_second_instantiation_reversed": (
        "interface Producer<T> { method produce(): T }\ninterface IntP : Producer<int> {}\ninterface BoolP : Producer<bool> {}\n"
        "class One(val v: int) : BoolP, IntP { method produce(): int = this.v }\n",
        "interface Producer<T> { method produce(): T }\ninterface IntP : Producer<int> {}\ninterface BoolP : Producer<bool> {}\n"
        "class One(val v: int) : IntP { method produce(): int = this.v }\n"),
    "type_arguments_on_type_parameter": (
        "class Util { function <T> f(x: T<int>, y: int): int = y }\n",
        "class Util { function <T> f(x: T, y: int): int = y }\n"),
    "type_arguments_on_type_parameter_in_return": (
        "class Util { function <T> f(x: T): T<int> = x }\n",
        "class Util { function <T> f(x: T): T = x }\n"),
    "interface_method_missing": (
        "interface I { method f(): int  method g(): int }\nclass C(val v: int) : I { method f(): int = this.v }\n",
        "interface I { method f(): int  method g(): int }\nclass C(val v: int) : I { method f(): int = this.v  method g(): int = 1 }\n"),
    "interface_method_wrong_return": (
        "interface I { method f(): int }\nclass C(val v: int) : I { method f(): bool = true }\n",
        "interface I { method f(): int }\nclass C(val v: int) : I { method f(): int = this.v }\n"),
    "interface_method_wrong_parameter": (
        "interface I { method f(a: int): int }\nclass C(val v: int) : I { method f(a: bool): int = this.v }\n",
        "interface I { method f(a: int): int }\nclass C(val v: int) : I { method f(a: int): int = this.v + a }\n"),
    "interface_function_for_method": (
        "interface I { method f(): int }\nclass C(val v: int) : I { function f(): int = 1 }\n",
        "interface I { method f(): int }\nclass C(val v: int) : I { method f(): int = 1 }\n"),
    "second_interface_conflicts": (
        "interface A { method id(): int }\ninterface B { method id(): bool }\nclass C(val v: int) : A, B { method id(): int = this.v }\n",
        "interface A { method id(): int }\ninterface B { method other(): bool }\nclass C(val v: int) : A, B { method id(): int = this.v  method other(): bool = true }\n"),
    "inherited_interface_conflicts": (
        "interface A { method id(): int }\ninterface B { method id(): bool }\ninterface AB : A, B {}\nclass C(val v: int) : AB { method id(): int = this.v }\n",
        "interface A { method id(): int }\ninterface B { method name(): bool }\ninterface AB : A, B {}\nclass C(val v: int) : AB { method id(): int = this.v  method name(): bool = true }\n"),
    "generic_interface_instance_mismatch": (
        "interface Box<T> { method get(): T }\nclass C(val v: int) : Box<bool> { method get(): int = this.v }\n",
        "interface Box<T> { method get(): T }\nclass C(val v: int) : Box<int> { method get(): int = this.v }\n"),
    "unknown_super_interface": (
        "class C(val v: int) : Nowhere { method f(): int = 1 }\n",
        "interface Nowhere { method f(): int }\nclass C(val v: int) : Nowhere { method f(): int = 1 }\n"),
    "cyclic_interfaces": (
        "interface A : B {}\ninterface B : A {}\n",
        "interface A {}\ninterface B : A {}\n"),
    "duplicate_class": (
        "class D(val v: int) {}\nclass D(val w: int) {}\n",
        "class D(val v: int) {}\nclass D2(val w: int) {}\n"),
    "duplicate_member": (
        "class D(val v: int) { method f(): int = 1  method f(): int = 2 }\n",
        "class D(val v: int) { method f(): int = 1  method g(): int = 2 }\n"),
    "duplicate_type_parameter": (
        "class D { function <T, T> f(a: T): T = a }\n",
        "class D { function <T, U> f(a: T): T = a }\n"),
    "signature_type_argument_arity": (
        "class G<T>(val t: T) {}\nclass D { function f(g: G<int, int>): int = 1 }\n",
        "class G<T>(val t: T) {}\nclass D { function f(g: G<int>): int = 1 }\n"),
    "signature_unknown_type": (
        "class D { function f(g: Missing): int = 1 }\n",
        "class D { function f(g: int): int = 1 }\n"),
    "bound_unknown_type": (
        "class D { function <T: Missing> f(a: T): int = 1 }\n",
        "interface Missing {}\nclass D { function <T: Missing> f(a: T): int = 1 }\n"),
    "return_type_vs_body": (
        "class D { function f(): int = \"s\" }\n",
        "class D { function f(): Str = \"s\" }\n"),
    "this_in_function": (
        "class D(val v: int) { function f(): int = this.v }\n",
        "class D(val v: int) { method f(): int = this.v }\n"),
    "private_method_from_other_class": (
        "class D(val v: int) { private method f(): int = 1 }\nclass E { function g(d: D): int = d.f() }\n",
        "class D(val v: int) { method f(): int = 1 }\nclass E { function g(d: D): int = d.f() }\n"),
    "field_access_from_other_class_private_field": (
        "class D(private val v: int) {}\nclass E { function g(d: D): int = d.v }\n",
        "class D(val v: int) {}\nclass E { function g(d: D): int = d.v }\n"),
    "member_named_like_struct_constructor": (
        "class D(val a: int) { function init(): int = 1 }\n",
        "class D(val a: int) { function make(): int = 1 }\n"),
    "member_named_like_variant_constructor": (
        "class D(A(int), B) { function A(): int = 1 }\n",
        "class D(A(int), B) { function a(): int = 1 }\n"),
    "class_bound_not_satisfied": (
        "interface Cmp<T> { method cmp(o: T): int }\nclass G<T: Cmp<T>>(val t: T) {}\nclass P(val v: int) {}\nclass D { function f(g: G<P>): int = 1 }\n",
        "interface Cmp<T> { method cmp(o: T): int }\nclass G<T: Cmp<T>>(val t: T) {}\nclass P(val v: int) : Cmp<P> { method cmp(o: P): int = 0 }\nclass D { function f(g: G<P>): int = 1 }\n"),
}


# ---- cross-module faults ("a use of a private member or class from another module"): (library module Lib, ill-formed
# user module, well-formed twin).  The user module is the entry point L and imports from Lib.
MOD_LIB = """class Foo(private val secret: int, val open: int) {
  function make(): Foo = Foo.init(42, 1)
  private function hiddenFn(): int = 1
  function openFn(): int = 2
  private method hiddenM(): int = this.secret
  method openM(): int = this.open
}
class Holder { function get(): Foo = Foo.make()  function both(): AllOpen = AllOpen.init(1, 2) }
class AllOpen(val x: int, val y: int) {}
private class Hidden(val code: int) { function f(): int = 1  method reveal(): int = this.code }
class Pub { function f(): int = Hidden.f()  function open(): Hidden = Hidden.init(42)  function use(h: Hidden): int = h.reveal() }
"""
MOD_MAIN = "class Main { function main(): unit = Process.println(Str.fromInt(U.peek())) }\n"
MODULE_FAULTS = {
    "private_function_other_module": ("import { Foo } from Lib;\nclass U { function peek(): int = Foo.hiddenFn() }\n",
                                      "import { Foo } from Lib;\nclass U { function peek(): int = Foo.openFn() }\n"),
    "private_method_other_module": ("import { Foo } from Lib;\nclass U { function peek(): int = Foo.make().hiddenM() }\n",
                                    "import { Foo } from Lib;\nclass U { function peek(): int = Foo.make().openM() }\n"),
    "private_field_other_module": ("import { Foo } from Lib;\nclass U { function peek(): int = Foo.make().secret }\n",
                                   "import { Foo } from Lib;\nclass U { function peek(): int = Foo.make().open }\n"),
    "private_field_pattern_other_module": ("import { Foo } from Lib;\nclass U { function peek(): int = { let { secret, open } = Foo.make(); secret + open } }\n",
                                           "import { Holder } from Lib;\nclass U { function peek(): int = { let { x, y } = Holder.both(); x + y } }\n"),
    "private_class_import": ("import { Hidden } from Lib;\nclass U { function peek(): int = Hidden.f() }\n",
                             "import { Pub } from Lib;\nclass U { function peek(): int = Pub.f() }\n"),
    # an instance of a private class handed out by a public function: its members stay out of reach
    "private_class_instance_method": ("import { Pub } from Lib;\nclass U { function peek(): int = Pub.open().reveal() }\n",
                                      "import { Pub } from Lib;\nclass U { function peek(): int = Pub.use(Pub.open()) }\n"),
    "private_class_instance_field": ("import { Pub } from Lib;\nclass U { function peek(): int = Pub.open().code }\n",
                                     "import { Pub } from Lib;\nclass U { function peek(): int = Pub.use(Pub.open()) }\n"),
    "private_class_instance_pattern": ("import { Pub } from Lib;\nclass U { function peek(): int = { let { code } = Pub.open(); code } }\n",
                                       "import { Pub } from Lib;\nclass U { function peek(): int = Pub.use(Pub.open()) }\n"),
    # the accessing class has the same NAME as the class that owns the private member, but lives in another module
    "private_field_same_named_class": ("import { Holder } from Lib;\nclass Foo { function look(): int = Holder.get().secret }\nclass U { function peek(): int = Foo.look() }\n",
                                       "import { Holder } from Lib;\nclass Foo { function look(): int = Holder.get().open }\nclass U { function peek(): int = Foo.look() }\n"),
    "private_field_pattern_same_named_class": ("import { Holder } from Lib;\nclass Foo { function look(): int = { let { secret, open } = Holder.get(); secret + open } }\nclass U { function peek(): int = Foo.look() }\n",
                                               "import { Holder } from Lib;\nclass Foo { function look(): int = { let { x, y } = Holder.both(); x + y } }\nclass U { function peek(): int = Foo.look() }\n"),
    "private_method_same_named_class": ("import { Holder } from Lib;\nclass Foo { function look(): int = Holder.get().hiddenM() }\nclass U { function peek(): int = Foo.look() }\n",
                                        "import { Holder } from Lib;\nclass Foo { function look(): int = Holder.get().openM() }\nclass U { function peek(): int = Foo.look() }\n"),
}


def module_rejects():
    out = []
    for name, (bad, good) in MODULE_FAULTS.items():
        out.append(("module-twin:%s" % name, good + MOD_MAIN, "ok"))
        out.append(("module:%s" % name, bad + MOD_MAIN, "rejected"))
    return out


def declaration_rejects():
    out = []
    for name, (bad, good) in DECL_FAULTS.items():
        out.append(("decl-twin:%s" % name, good + DECL_MAIN, "ok"))
        out.append(("decl:%s" % name, bad + DECL_MAIN, "rejected"))
    return out


def compile_status(drv, sc, prog, lib=None):
    d = os.path.join(sc.root, "c06")
    os.makedirs(d, exist_ok=True)
    path = os.path.join(d, "L.sam")
    open(path, "w").write(prog)
    mods = ["L=" + path]
    if lib is not None:
        open(os.path.join(d, "Lib.sam"), "w").write(lib)
        mods.append("Lib=" + os.path.join(d, "Lib.sam"))
    p = drv.call(["compile", os.path.join(d, "out"), "L"] + mods, check=False)
    try:
        return json.loads(p.stdout.strip().split("\n")[-1])["status"]
    except Exception:
        return "driver-error"


def replay(drv, sc, wit, OPERATOR, MINUS):
    val = wit["value"]
    lit = "9223372036854775808" if isinstance(val, str) else str(val)
    if wit["pending_is_some"] != 1:
        pre = ""          # first token of the file cannot be an expression; use the gate form instead
        prog = "class Main { function main(): unit = { let x: int = %s; Process.println(Str.fromInt(x)) } }\n" % lit
    elif wit["pending_kind"] == OPERATOR and wit["pending_op"] == MINUS:
        prog = "class Main { function main(): unit = { let x: int = -%s; Process.println(Str.fromInt(x)) } }\n" % lit
    else:
        prog = "class Main { function main(): unit = { let x: int = 1 + %s; Process.println(Str.fromInt(x)) } }\n" % lit
    st_ = compile_status(drv, sc, prog)
    in_range = (not isinstance(val, str)) and (val <= 2147483647 or (val == 2147483648 and "-%s" % lit in prog))
    return ((st_ == "ok") != in_range), {"program": prog, "status": st_}
