//! vdriver queries <file>  -> JSON lines, one per position of the document:
//!   {"p":[line,col],"hover":[sl,sc,el,ec]|null,"def":{"same":bool,"l":[..]}|null,"refs":[{"same":bool,"l":[..]}...]}
//! and a last line {"folding":[[..]...],"errors":n}.
//! The document is loaded into a real ServerState (std modules included) and every position is queried through the
//! public services API (hover, definition_location, all_references, folding_ranges).
use samlang_ast::{Location, Position};
use samlang_heap::Heap;
use samlang_services::{query, server_state::ServerState};
use std::collections::HashMap;

fn l(loc: &Location) -> String {
  format!("[{},{},{},{}]", loc.start.0 as i64, loc.start.1 as i64, loc.end.0 as i64, loc.end.1 as i64)
}

pub fn queries_cmd(args: &[String]) {
  let mut heap = Heap::new();
  let text = std::fs::read_to_string(&args[0]).expect("readable source");
  let mr = heap.alloc_module_reference_from_string_vec(vec!["E".to_string()]);
  let mut texts = HashMap::new();
  for (m, t) in samlang_parser::builtin_std_raw_sources(&mut heap) {
    texts.insert(m, t);
  }
  texts.insert(mr, text.clone());
  let state = ServerState::new(heap, false, texts);
  let mut out = String::new();
  for (line_no, line) in text.split('\n').enumerate() {
    for col in 0..=line.len() {
      let p = Position(line_no as u32, col as u32);
      out.push_str(&format!("{{\"p\":[{},{}],\"hover\":", line_no, col));
      match query::hover(&state, &mr, p) {
        Some(r) => out.push_str(&l(&r.location)),
        None => out.push_str("null"),
      }
      out.push_str(",\"def\":");
      match query::definition_location(&state, &mr, p) {
        Some(d) => out.push_str(&format!("{{\"same\":{},\"l\":{}}}", d.module_reference == mr, l(&d))),
        None => out.push_str("null"),
      }
      out.push_str(",\"refs\":[");
      for (i, r) in query::all_references(&state, &mr, p).iter().enumerate() {
        if i > 0 {
          out.push(',');
        }
        out.push_str(&format!("{{\"same\":{},\"l\":{}}}", r.module_reference == mr, l(r)));
      }
      out.push_str("]}\n");
    }
  }
  let folding: Vec<String> = query::folding_ranges(&state, &mr).unwrap_or_default().iter().map(l).collect();
  out.push_str(&format!("{{\"folding\":[{}],\"errors\":{}}}\n", folding.join(","), state.get_errors(&mr).len()));
  print!("{}", out);
}
