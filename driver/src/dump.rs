//! Front-end / pipeline subcommands of the native driver.
use samlang_errors::ErrorSet;
use samlang_heap::{Heap, ModuleReference};
use std::collections::HashMap;

pub fn json_str(s: &str) -> String {
  let mut o = String::with_capacity(s.len() + 2);
  o.push('"');
  for c in s.chars() {
    match c {
      '"' => o.push_str("\\\""),
      '\\' => o.push_str("\\\\"),
      '\n' => o.push_str("\\n"),
      '\r' => o.push_str("\\r"),
      '\t' => o.push_str("\\t"),
      c if (c as u32) < 0x20 => o.push_str(&format!("\\u{:04x}", c as u32)),
      c => o.push(c),
    }
  }
  o.push('"');
  o
}

/// "a/b/C.sam" given as "a.b.C=path": module name is explicit.
fn read_sources(heap: &mut Heap, specs: &[String]) -> (HashMap<ModuleReference, String>, Vec<(String, ModuleReference)>) {
  let mut m = HashMap::new();
  let mut names = Vec::new();
  for s in specs {
    let (name, path) = s.split_once('=').expect("module=path");
    let text = std::fs::read_to_string(path).expect("readable source");
    let mr = heap.alloc_module_reference_from_string_vec(name.split('.').map(|x| x.to_string()).collect());
    m.insert(mr, text);
    names.push((name.to_string(), mr));
  }
  (m, names)
}

/// vdriver typecheck <module=path>...   -> one JSON object: {"errors": "<rendered, no frames>"}
/// std modules are always available (as the CLI does).
pub fn typecheck_cmd(args: &[String]) {
  let heap = &mut Heap::new();
  let (mut texts, _) = read_sources(heap, args);
  for (mr, t) in samlang_parser::builtin_std_raw_sources(heap) {
    texts.entry(mr).or_insert(t);
  }
  let mut error_set = ErrorSet::new();
  let mut parsed = HashMap::new();
  for (mr, t) in &texts {
    parsed.insert(*mr, samlang_parser::parse_source_module_from_text(t, *mr, heap, &mut error_set));
  }
  let _ = samlang_checker::type_check_sources(&parsed, &mut error_set);
  println!("{{\"errors\":{}}}", json_str(&error_set.pretty_print_error_messages_no_frame_for_test(heap)));
}

/// vdriver compile <outdir> <entry module> <module=path>...
/// Runs the real `compile_sources` (std included the way the CLI includes it), writes every emitted
/// file to <outdir>, validates the binary module with wasmparser, prints one JSON status line.
pub fn compile_cmd(args: &[String]) {
  let outdir = &args[0];
  let entry = &args[1];
  let heap = &mut Heap::new();
  let (mut texts, names) = read_sources(heap, &args[2..]);
  for (mr, t) in samlang_parser::builtin_std_raw_sources(heap) {
    texts.entry(mr).or_insert(t);
  }
  let entry_mr = names.iter().find(|(n, _)| n == entry).map(|(_, m)| *m).expect("entry module given");
  let r = std::panic::catch_unwind(std::panic::AssertUnwindSafe(|| {
    samlang_compiler::compile_sources(heap, texts, vec![entry_mr], false)
  }));
  match r {
    Err(_) => println!("{{\"status\":\"panic\"}}"),
    Ok(Err(e)) => println!("{{\"status\":\"rejected\",\"errors\":{}}}", json_str(&e)),
    Ok(Ok(res)) => {
      std::fs::create_dir_all(outdir).unwrap();
      for (name, text) in &res.text_code_results {
        std::fs::write(format!("{}/{}", outdir, name), text).unwrap();
      }
      std::fs::write(format!("{}/__all__.wasm", outdir), &res.wasm_file).unwrap();
      let mut v = wasmparser::Validator::new_with_features(wasmparser::WasmFeatures::all());
      let valid = match v.validate_all(&res.wasm_file) {
        Ok(_) => "null".to_string(),
        Err(e) => json_str(&format!("{}", e)),
      };
      println!(
        "{{\"status\":\"ok\",\"files\":[{}],\"wasm_validation_error\":{}}}",
        res.text_code_results.keys().map(|k| json_str(k)).collect::<Vec<_>>().join(","),
        valid
      );
    }
  }
}

pub fn dump_cmd(_args: &[String]) {}
