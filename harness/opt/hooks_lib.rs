// Appended (as `pub mod verif_hooks`) to samlang-optimization/src/lib.rs in the scratch copy only.
#![allow(unused_imports)]
pub use super::conditional_constant_propagation::verif_harness as ccp;
pub use super::loop_algebraic_optimization::verif_harness as lao;
pub use super::loop_induction_analysis::verif_harness as lia;

/// individual passes, for pass-in-isolation validation (E-T, thorough tier)
pub fn run_pass(name: &str, f: &mut samlang_ast::mir::Function, heap: &mut samlang_heap::Heap) -> bool {
  let counter = heap.create_temp_counter();
  match name {
    "ccp" => super::conditional_constant_propagation::optimize_function(f),
    "sroa" => super::scalar_replacement::optimize_function(f),
    "loop" => super::loop_optimizations::optimize_function(f, &counter),
    "cse" => super::common_subexpression_elimination::optimize_function(f, &counter),
    "lvn" => super::local_value_numbering::optimize_function(f),
    "dce" => super::dead_code_elimination::optimize_function(f),
    _ => return false,
  }
  heap.sync_temp_counter(&counter);
  true
}

pub fn run_inlining(fs: Vec<samlang_ast::mir::Function>, heap: &mut samlang_heap::Heap) -> Vec<samlang_ast::mir::Function> {
  super::inlining::optimize_functions(fs, heap)
}
