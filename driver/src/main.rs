//! Native driver used by the /verif checks (scratch workspace only; never part of /repo).
//!   vdriver kernels            : one request per stdin line "<kernel> <int args...>", one JSON line out
//!   vdriver compile <out> <entry> <file.sam>...   : run the real compile_sources, write emitted files
//!   vdriver dump ...           : see dump.rs
mod dump;
mod irjson;
mod kernels;
mod loctree;
mod queries;

fn main() {
  // panics inside kernels are caught; silence the default hook's backtrace spam
  std::panic::set_hook(Box::new(|_| {}));
  let args: Vec<String> = std::env::args().collect();
  if args.len() < 2 {
    eprintln!("usage: vdriver kernels|compile|dump ...");
    std::process::exit(64);
  }
  match args[1].as_str() {
    "kernels" => kernels::serve(),
    "compile" => dump::compile_cmd(&args[2..]),
    "dump" => dump::dump_cmd(&args[2..]),
    "optable" => kernels::optable(),
    "typecheck" => dump::typecheck_cmd(&args[2..]),
    "exprloc" => dump::exprloc_cmd(&args[2..]),
    "survive" => dump::survive_cmd(&args[2..]),
    "loctree" => loctree::loctree_cmd(&args[2..]),
    "queries" => queries::queries_cmd(&args[2..]),
    _ => {
      eprintln!("unknown subcommand");
      std::process::exit(64);
    }
  }
}
