"""E-W: reader and symbolic interpreter for the folded WAT text that `libsam.wat` and the real
`wasm.rs::pretty_print` produce.

Instruction semantics are written from the WebAssembly core + GC specifications (trusted base):
i32 arithmetic / comparisons, locals, globals, block / loop / if / br / br_if / return / select /
drop / unreachable, call, call_indirect (through the emitted element segment), struct.new/get/set,
array.new / new_data / get_s / get / set / len / copy, ref.null / ref.eq / ref.test / ref.cast /
ref.as_non_null / ref.i31 / i31.get_s.

Values are the ones of vlib/irsym.py (Int, I31, Obj, Str, Sym, ...) plus Null and Arr, so that a WAT
function can be compared with the LIR function it was generated from, observable by observable.
"""
import re
import time

import z3

from .irsym import (Int, I31, Obj, Str, Fn, Sym, Poison, World, Path, Budget, Unsupported, BV, INT_MIN, is_builtin, vkey)


class Null:
    def __repr__(self):
        return "Null"


NULL = Null()


class Arr:
    """array object: element kind 'i8' (strings) or 'ref'; contents a Python list of values for concrete
    lengths, or (z3 array term, z3 length term) when symbolic"""
    __slots__ = ("ty", "elems", "zarr", "zlen", "key")

    def __init__(self, ty, elems=None, zarr=None, zlen=None, key=None):
        self.ty = ty
        self.elems = elems
        self.zarr = zarr
        self.zlen = zlen
        self.key = key

    def __repr__(self):
        return "Arr(%s,%s)" % (self.ty, self.elems if self.elems is not None else "sym:%s" % self.key)


# ---------------------------------------------------------------------------------------------
# s-expression reader

def tokenize(text):
    toks = []
    i, n = 0, len(text)
    while i < n:
        c = text[i]
        if c in " \t\r\n":
            i += 1
        elif text.startswith(";;", i):
            j = text.find("\n", i)
            i = n if j < 0 else j
        elif text.startswith("(;", i):
            j = text.find(";)", i)
            i = n if j < 0 else j + 2
        elif c in "()":
            toks.append(c)
            i += 1
        elif c == '"':
            j = i + 1
            out = bytearray()
            while text[j] != '"':
                if text[j] == "\\":
                    nx = text[j + 1]
                    if nx in "0123456789abcdefABCDEF" and text[j + 2] in "0123456789abcdefABCDEF":
                        out.append(int(text[j + 1:j + 3], 16))
                        j += 3
                    else:
                        out.append({"n": 10, "t": 9, "r": 13, '"': 34, "'": 39, "\\": 92}.get(nx, ord(nx)))
                        j += 2
                else:
                    out += text[j].encode("utf-8")
                    j += 1
            toks.append(("str", bytes(out)))
            i = j + 1
        else:
            j = i
            while j < n and text[j] not in " \t\r\n()\"":
                j += 1
            toks.append(text[i:j])
            i = j
    return toks


def parse(text):
    toks = tokenize(text)
    pos = [0]

    def rd():
        t = toks[pos[0]]
        pos[0] += 1
        if t == "(":
            lst = []
            while toks[pos[0]] != ")":
                lst.append(rd())
            pos[0] += 1
            return lst
        if t == ")":
            raise Unsupported("unbalanced parenthesis in WAT")
        return t
    out = []
    while pos[0] < len(toks):
        out.append(rd())
    return out


class Module:
    def __init__(self, text):
        top = parse(text)
        if len(top) == 1 and top[0] and top[0][0] == "module":
            top = top[0][1:]
        self.types = {}       # name -> ("struct", parent, [field types]) | ("array", elemtype) | ("func", params, result)
        self._open = set()
        self.funcs = {}
        self.imports = {}
        self.globals = {}
        self.data = {}
        self.table = []
        self.start = None
        for item in top:
            if not isinstance(item, list) or not item:
                continue
            h = item[0]
            if h == "rec":
                for t in item[1:]:
                    self._type(t)
            elif h == "type":
                self._type(item)
            elif h == "func":
                self._func(item)
            elif h == "import":
                f = item[3]
                self.imports[f[1]] = self._sig(f[2:])
            elif h == "global":
                self.globals[item[1]] = item
            elif h == "data":
                self.data[item[1]] = item[2][1] if isinstance(item[2], tuple) else b""
            elif h == "elem":
                self.table = [x for x in item[3:] if isinstance(x, str)]
            elif h == "start":
                self.start = item[1]
        # enum families: struct types that are declared `sub` (open for variant subtypes)
        self.extensible = {n for n, d in self.types.items() if d[0] == "struct" and (n in self._open or d[1] is not None)}
        self.strings = {}     # global name -> bytes (from the start function)
        if self.start and self.start in self.funcs:
            for ins in self.funcs[self.start]["body"]:
                if isinstance(ins, list) and ins[0] == "global.set" and isinstance(ins[2], list) and ins[2][0] == "array.new_data":
                    d = self.data.get(ins[2][2], b"")
                    off = int(ins[2][3][1])
                    ln = int(ins[2][4][1])
                    self.strings[ins[1]] = d[off:off + ln]

    def _type(self, t):
        name = t[1][1:] if t[1].startswith("$") else t[1]
        body = t[2]
        parent = None
        if body[0] == "sub":
            self._open.add(name)
            rest = body[1:]
            if rest and isinstance(rest[0], str) and rest[0] == "final":
                rest = rest[1:]
            if rest and isinstance(rest[0], str):
                parent = rest[0][1:] if rest[0].startswith("$") else rest[0]
                rest = rest[1:]
            body = rest[0]
        if body[0] == "struct":
            self.types[name] = ("struct", parent, [f[1] for f in body[1:]])
        elif body[0] == "array":
            self.types[name] = ("array", parent, body[1])
        elif body[0] == "func":
            self.types[name] = ("func", parent, self._sig(body[1:]))

    @staticmethod
    def _sig(parts):
        params, result = [], None
        for p in parts:
            if isinstance(p, list) and p and p[0] == "param":
                rest = p[1:]
                if rest and isinstance(rest[0], str) and rest[0].startswith("$"):
                    params.append((rest[0], rest[1]))
                else:
                    for t in rest:
                        params.append((None, t))
            elif isinstance(p, list) and p and p[0] == "result":
                result = p[1]
        return {"params": params, "result": result}

    def _func(self, item):
        name = item[1]
        i = 2
        params, result, locals_ = [], None, []
        while i < len(item) and isinstance(item[i], list) and item[i] and item[i][0] in ("export", "param", "result", "local", "type"):
            p = item[i]
            if p[0] == "param":
                rest = p[1:]
                if rest and isinstance(rest[0], str) and rest[0].startswith("$"):
                    params.append((rest[0], rest[1]))
                else:
                    for t in rest:
                        params.append((None, t))
            elif p[0] == "result":
                result = p[1]
            elif p[0] == "local":
                rest = p[1:]
                if rest and isinstance(rest[0], str) and rest[0].startswith("$"):
                    locals_.append((rest[0], rest[1]))
            i += 1
        self.funcs[name] = {"name": name, "params": params, "result": result, "locals": locals_, "body": item[i:]}

    def is_subtype(self, t, of):
        seen = 0
        while t is not None and seen < 50:
            if t == of:
                return True
            d = self.types.get(t)
            t = d[1] if d else None
            seen += 1
        return False


def heap_type(t):
    """(ref null? $T) | (ref eq) | (ref i31) -> 'T' | 'eq' | 'i31'; i32 -> 'i32'"""
    if isinstance(t, str):
        return t
    if t[0] == "ref":
        x = t[-1]
        return x[1:] if x.startswith("$") else x
    if t[0] == "mut":
        return heap_type(t[1])
    return str(t)


def sext31(x):
    return z3.SignExt(1, z3.Extract(30, 0, x))


class WState:
    __slots__ = ("loc", "pc", "trace", "stack", "steps", "forks", "model", "heap")

    def copy(self):
        s = WState()
        s.loc = dict(self.loc)
        s.pc = list(self.pc)
        s.trace = list(self.trace)
        s.stack = list(self.stack)
        s.steps = self.steps
        s.forks = self.forks
        s.model = self.model
        s.heap = dict(self.heap)
        return s


class WExec:
    """symbolic interpreter of one WAT function (role 'new': traps are outcomes)"""

    def __init__(self, mod, world, bounds=None, solver=None, enter=False):
        self.m = mod
        self.w = world
        self.enter = enter
        b = bounds or {}
        self.max_forks = b.get("forks", 12)
        self.max_steps = b.get("steps", 8000)
        self.max_paths = b.get("paths", 300)
        self.solver = solver or z3.Solver()
        self.solver.set("timeout", 10000)
        self.queries = 0
        self.paths = []
        self.deadline = None
        self.role = "new"
        self.nalloc = 0

    inline_calls = ()

    def feasible(self, pc):
        self.queries += 1
        if self.deadline is not None and time.time() > self.deadline:
            raise Budget("time budget")
        self.solver.push()
        self.solver.add(*pc)
        if self.w.axioms:
            self.solver.add(*self.w.axioms)
        r = self.solver.check()
        m = self.solver.model() if r == z3.sat else None
        self.solver.pop()
        if r == z3.unknown:
            raise Budget("solver unknown on a feasibility query")
        return m

    # ---------------------------------------------------------------- traps inside expressions
    def may_trap(self, st, cond, why):
        """record the trapping side path (if feasible) and continue under the negation"""
        c = z3.simplify(cond)
        if z3.is_false(c):
            return
        if z3.is_true(c):
            self.paths.append(Path(list(st.pc), list(st.trace), "trap", why=why, model=st.model))
            raise _Dead()
        m = self.feasible(st.pc + [c])
        if m is not None:
            self.paths.append(Path(st.pc + [c], list(st.trace), "trap", why=why, model=m))
        st.pc.append(z3.Not(c))
        st.model = None
        if self.feasible(st.pc) is None:
            raise _Dead()

    # ---------------------------------------------------------------- expressions
    def i32(self, v, what):
        if isinstance(v, Int):
            return v.t
        raise Unsupported("%s on a non-i32 value %r" % (what, v))

    def ev(self, e, st):
        if isinstance(e, str):
            raise Unsupported("bare token %s" % e)
        op = e[0]
        if op == "i32.const":
            return Int(BV(int(e[1], 0)))
        if op == "local.get":
            return st.loc[e[1]]
        if op == "local.tee":
            v = self.ev(e[2], st)
            st.loc[e[1]] = v
            return v
        if op == "global.get":
            if e[1] in self.m.strings:
                raw = self.m.strings[e[1]]
                try:
                    return Str(raw.decode("utf-8"))
                except UnicodeDecodeError:
                    return Str(raw.decode("latin-1"))
            return Sym("global:" + e[1], "any")
        if op.startswith("i32."):
            return self.arith(op[4:], e, st)
        if op == "ref.null":
            return NULL
        if op == "ref.i31":
            x = self.i32(self.ev(e[1], st), op)
            return I31(z3.simplify(sext31(x)))
        if op == "i31.get_u":
            v = self.ev(e[1], st)
            if isinstance(v, I31):
                return Int(z3.simplify(v.t & BV(0x7FFFFFFF)))
            if isinstance(v, Sym):
                self.may_trap(st, z3.Not(self.w.fact("isi31!%s" % v.key)), "i31.get_u on a non-i31")
                return Int(z3.BitVec(v.key + "#i31val", 32) & BV(0x7FFFFFFF))
            raise Unsupported("i31.get_u of %r" % (v,))
        if op == "i31.get_s":
            v = self.ev(e[1], st)
            if isinstance(v, I31):
                return Int(z3.simplify(sext31(v.t)))
            if isinstance(v, Sym):
                self.may_trap(st, z3.Not(self.w.fact("isi31!%s" % v.key)), "i31.get_s on a non-i31")
                return Int(sext31(z3.BitVec(v.key + "#i31val", 32)))
            if isinstance(v, Null):
                self.may_trap(st, z3.BoolVal(True), "i31.get_s of null")
            raise Unsupported("i31.get_s of %r" % (v,))
        if op == "ref.as_non_null":
            v = self.ev(e[1], st)
            if isinstance(v, Null):
                self.may_trap(st, z3.BoolVal(True), "ref.as_non_null of null")
            return v
        if op == "ref.eq":
            a = self.ev(e[1], st)
            b = self.ev(e[2], st)
            return Int(z3.If(self.ref_eq(a, b), BV(1), BV(0)))
        if op == "ref.is_null":
            v = self.ev(e[1], st)
            return Int(BV(1 if isinstance(v, Null) else 0))
        if op == "ref.test":
            v = self.ev(e[2], st)
            return Int(z3.If(self.has_type(v, heap_type(e[1])), BV(1), BV(0)))
        if op == "ref.cast":
            v = self.ev(e[2], st)
            t = heap_type(e[1])
            if isinstance(v, Null):
                if isinstance(e[1], list) and "null" in e[1]:
                    return v
                self.may_trap(st, z3.BoolVal(True), "ref.cast of null to %s" % t)
            ok = self.has_type(v, t)
            self.may_trap(st, z3.Not(ok), "illegal cast to %s" % t)
            if isinstance(v, Sym) and t not in ("eq", "i31"):
                return Sym(v.key, t)
            return v
        if op == "struct.new":
            t = e[1][1:]
            return Obj(t, [self.ev(x, st) for x in e[2:]])
        if op == "struct.get":
            t = e[1][1:]
            idx = int(e[2])
            v = self.ev(e[3], st)
            return self.struct_get(v, t, idx, st)
        if op == "array.len":
            a = self.ev(e[1], st)
            return Int(self.arr_len(a, st))
        if op in ("array.get_s", "array.get_u", "array.get"):
            a = self.ev(e[2], st)
            i = self.i32(self.ev(e[3], st), op)
            return self.arr_get(a, i, st, op)
        if op == "array.new":
            init = self.ev(e[2], st)
            n = self.i32(self.ev(e[3], st), op)
            return self.arr_new(e[1][1:], init, n, st)
        if op == "array.new_data":
            d = self.m.data.get(e[2], b"")
            off = self.i32(self.ev(e[3], st), op)
            ln = self.i32(self.ev(e[4], st), op)
            off, ln = z3.simplify(off), z3.simplify(ln)
            if not (z3.is_bv_value(off) and z3.is_bv_value(ln)):
                raise Unsupported("array.new_data with symbolic offset/length")
            o, l = off.as_long(), ln.as_long()
            if o + l > len(d):
                self.may_trap(st, z3.BoolVal(True), "array.new_data out of bounds (%d+%d > %d)" % (o, l, len(d)))
            return Arr(e[1][1:], [Int(BV(b if b < 128 else b - 256)) for b in d[o:o + l]])
        if op == "select":
            a = self.ev(e[1], st)
            b = self.ev(e[2], st)
            c = self.i32(self.ev(e[3], st), op)
            if isinstance(a, Int) and isinstance(b, Int):
                return Int(z3.If(c != BV(0), a.t, b.t))
            raise Unsupported("select on references")
        if op == "call":
            return self.call(e[1][1:], [self.ev(x, st) for x in e[2:]], st, None)
        if op == "call_indirect":
            # (call_indirect $table (type $T) args... index)
            args = [self.ev(x, st) for x in e[3:]]
            idx = args.pop()
            target = None
            it = z3.simplify(idx.t) if isinstance(idx, Int) else None
            if it is not None and z3.is_bv_value(it):
                k = it.as_long()
                if k >= len(self.m.table):
                    self.may_trap(st, z3.BoolVal(True), "call_indirect index out of table bounds")
                target = self.m.table[k][1:]
                sig = self.m.types.get(e[2][1][1:])
                f = self.m.funcs.get("$" + target)
                if sig and f and len(sig[2]["params"]) != len(f["params"]):
                    self.may_trap(st, z3.BoolVal(True), "call_indirect signature mismatch")
                return self.call(target, args, st, None)
            sig = self.m.types.get(e[2][1][1:])
            return self.call(None, args, st, idx, sig[2]["result"] if sig else None)
        if op == "unreachable":
            self.may_trap(st, z3.BoolVal(True), "unreachable")
        raise Unsupported("WAT expression %s" % op)

    def arith(self, op, e, st):
        if op == "eqz":
            return Int(z3.If(self.i32(self.ev(e[1], st), op) == BV(0), BV(1), BV(0)))
        a = self.i32(self.ev(e[1], st), op)
        b = self.i32(self.ev(e[2], st), op)
        b2i = lambda c: z3.If(c, BV(1), BV(0))
        sh = b & BV(31)
        if op in ("div_s", "div_u", "rem_s", "rem_u"):
            trap = b == BV(0)
            if op == "div_s":
                trap = z3.Or(trap, z3.And(a == BV(INT_MIN), b == BV(-1)))
            self.may_trap(st, trap, "integer division trap")
            return Int({"div_s": a / b, "div_u": z3.UDiv(a, b), "rem_s": z3.SRem(a, b), "rem_u": z3.URem(a, b)}[op])
        tbl = {
            "add": lambda: a + b, "sub": lambda: a - b, "mul": lambda: a * b, "and": lambda: a & b, "or": lambda: a | b, "xor": lambda: a ^ b,
            "shl": lambda: a << sh, "shr_u": lambda: z3.LShR(a, sh), "shr_s": lambda: a >> sh,
            "eq": lambda: b2i(a == b), "ne": lambda: b2i(a != b),
            "lt_s": lambda: b2i(a < b), "le_s": lambda: b2i(a <= b), "gt_s": lambda: b2i(a > b), "ge_s": lambda: b2i(a >= b),
            "lt_u": lambda: b2i(z3.ULT(a, b)), "le_u": lambda: b2i(z3.ULE(a, b)), "gt_u": lambda: b2i(z3.UGT(a, b)), "ge_u": lambda: b2i(z3.UGE(a, b)),
        }
        if op not in tbl:
            raise Unsupported("i32.%s" % op)
        return Int(z3.simplify(tbl[op]()))

    def ref_eq(self, a, b):
        if isinstance(a, Null) or isinstance(b, Null):
            return z3.BoolVal(isinstance(a, Null) and isinstance(b, Null))
        if isinstance(a, I31) and isinstance(b, I31):
            return a.t == b.t
        if a is b:
            return z3.BoolVal(True)
        if isinstance(a, Sym) and isinstance(b, Sym) and a.key == b.key:
            return z3.BoolVal(True)
        if isinstance(a, Str) and isinstance(b, Str):
            return z3.BoolVal(a.s == b.s)
        for x, y in ((a, b), (b, a)):
            if isinstance(x, Sym) and isinstance(y, I31):
                return z3.And(self.w.fact("isi31!%s" % x.key), sext31(z3.BitVec(x.key + "#i31val", 32)) == y.t)
        if isinstance(a, (Obj, Arr)) or isinstance(b, (Obj, Arr)):
            return z3.BoolVal(False)
        if isinstance(a, I31) or isinstance(b, I31):
            return z3.BoolVal(False)
        ka, kb = sorted([vkey(a), vkey(b)])
        return self.w.fact("refeq!%s!%s" % (ka, kb))

    def has_type(self, v, t):
        if t == "eq":
            return z3.BoolVal(not isinstance(v, Null))
        if isinstance(v, I31):
            return z3.BoolVal(t == "i31")
        if isinstance(v, Obj):
            return z3.BoolVal(self.m.is_subtype(v.ty, t))
        if isinstance(v, Str):
            return z3.BoolVal(t == "_Str")
        if isinstance(v, Arr):
            return z3.BoolVal(v.ty == t)
        if isinstance(v, Null):
            return z3.BoolVal(False)
        if isinstance(v, Sym):
            if t == "i31":
                return self.w.fact("isi31!%s" % v.key)
            if isinstance(v.ty, str) and self.m.is_subtype(v.ty, t):
                return z3.BoolVal(True)
            return self.w.fact("isptr!%s!%s" % (v.key, t))
        raise Unsupported("type test of %r" % (v,))

    def struct_get(self, v, t, idx, st):
        if isinstance(v, Null):
            self.may_trap(st, z3.BoolVal(True), "struct.get of null")
        if isinstance(v, Obj):
            if ("o", id(v)) in st.heap:
                return st.heap[("o", id(v))][idx]
            return v.fields[idx]
        if isinstance(v, Sym):
            d = self.m.types.get(t)
            fty = d[2][idx] if d else "i32"
            ft = fty[-1] if isinstance(fty, list) and fty[0] == "mut" else fty
            kind = "int" if ft == "i32" else heap_type(ft)
            view = t
            if idx == 0:
                root = t
                while self.m.types.get(root) and self.m.types[root][1]:
                    root = self.m.types[root][1]
                if root in self.m.extensible:
                    view = "#tag"
            val = self.w.field(v, idx, "int" if kind == "int" else ("any" if kind in ("eq",) else kind), view)
            return val
        raise Unsupported("struct.get on %r" % (v,))

    # ---- arrays (concrete length lists or symbolic (array, length))
    def arr_new(self, ty, init, n, st):
        n = z3.simplify(n)
        self.nalloc += 1
        if z3.is_bv_value(n):
            k = n.as_signed_long()
            if k < 0 or k > 4096:
                raise Budget("array.new of %d elements" % k)
            return Arr(ty, [init] * k, key="new%d" % self.nalloc)
        if not isinstance(init, Int):
            raise Unsupported("symbolic-length array of references")
        za = z3.K(z3.BitVecSort(32), init.t)
        return Arr(ty, None, za, n, key="new%d" % self.nalloc)

    def arr_state(self, a, st):
        k = ("a", id(a))
        if k in st.heap:
            return st.heap[k]
        if isinstance(a, Arr):
            return (a.elems, a.zarr, a.zlen)
        raise Unsupported("array operation on %r" % (a,))

    def sym_array(self, v):
        """unknown array reference (argument): contents and length are symbolic"""
        return (None, z3.Array("arr!" + v.key, z3.BitVecSort(32), z3.BitVecSort(32)), z3.BitVec("len!" + v.key, 32))

    def arr_parts(self, a, st):
        if isinstance(a, Str):
            return ([Int(BV(b if b < 128 else b - 256)) for b in a.s.encode("utf-8")], None, None)
        if isinstance(a, Sym):
            k = ("s", a.key)
            if k not in st.heap:
                st.heap[k] = self.sym_array(a)
                ln = st.heap[k][2]
                st.pc.append(z3.And(ln >= BV(0), ln <= BV(1 << 20)))
            return st.heap[k]
        if isinstance(a, Null):
            self.may_trap(st, z3.BoolVal(True), "array access through null")
        return self.arr_state(a, st)

    def _i31_prefix(self, elems, i, st):
        """number of leading i31 elements if the symbolic index `i` can only select one of them on this path, else 0"""
        m_ = 0
        while m_ < len(elems) and isinstance(elems[m_], I31):
            m_ += 1
        if m_ == len(elems) or self.feasible(st.pc + [z3.UGE(i, BV(m_))]) is None:
            return m_
        return 0

    def arr_len(self, a, st):
        elems, za, zl = self.arr_parts(a, st)
        return BV(len(elems)) if elems is not None else zl

    def arr_get(self, a, i, st, op):
        elems, za, zl = self.arr_parts(a, st)
        i = z3.simplify(i)
        if elems is not None:
            self.may_trap(st, z3.UGE(i, BV(len(elems))), "array index out of bounds")
            if z3.is_bv_value(i):
                v = elems[i.as_long()]
            elif elems and isinstance(elems[0], I31) and self._i31_prefix(elems, i, st):
                m_ = self._i31_prefix(elems, i, st)
                t = elems[m_ - 1].t
                for k in range(m_ - 2, -1, -1):
                    t = z3.If(i == BV(k), elems[k].t, t)
                v = I31(t)
            else:
                if not all(isinstance(x, Int) for x in elems):
                    raise Unsupported("symbolic index into an array of references")
                t = elems[-1].t if elems else BV(0)
                for k in range(len(elems) - 2, -1, -1):
                    t = z3.If(i == BV(k), elems[k].t, t)
                v = Int(t)
        else:
            self.may_trap(st, z3.UGE(i, zl), "array index out of bounds")
            v = Int(z3.Select(za, i))
        if op == "array.get_s" and isinstance(v, Int):
            return Int(z3.simplify(z3.SignExt(24, z3.Extract(7, 0, v.t))))
        if op == "array.get_u" and isinstance(v, Int):
            return Int(z3.simplify(z3.ZeroExt(24, z3.Extract(7, 0, v.t))))
        return v

    def arr_set(self, a, i, v, st):
        elems, za, zl = self.arr_parts(a, st)
        i = z3.simplify(i)
        key = ("s", a.key) if isinstance(a, Sym) else ("a", id(a))
        if elems is not None:
            self.may_trap(st, z3.UGE(i, BV(len(elems))), "array index out of bounds")
            if z3.is_bv_value(i):
                ne = list(elems)
                ne[i.as_long()] = v
            elif isinstance(v, I31) and elems and isinstance(elems[0], I31) and self._i31_prefix(elems, i, st):
                m_ = self._i31_prefix(elems, i, st)
                ne = [I31(z3.If(i == BV(k), v.t, x.t)) for k, x in enumerate(elems[:m_])] + list(elems[m_:])
            else:
                if not isinstance(v, Int):
                    raise Unsupported("symbolic index store of a reference")
                ne = [Int(z3.If(i == BV(k), v.t, x.t)) for k, x in enumerate(elems)]
            st.heap[key] = (ne, None, None)
        else:
            self.may_trap(st, z3.UGE(i, zl), "array index out of bounds")
            st.heap[key] = (None, z3.Store(za, i, v.t), zl)

    # ---------------------------------------------------------------- calls
    def call(self, target, args, st, callee_val, result_type=None):
        if target is not None and target.startswith("__$"):
            # runtime helpers that are a single pure expression (e.g. $__$unwrapI31) are evaluated from their
            # real body in the module, not from an assumed meaning
            f = self.m.funcs.get("$" + target)
            if f is not None and len(f["body"]) == 1 and not f["locals"] and isinstance(f["body"][0], list) \
                    and f["body"][0][0] not in ("block", "loop", "if", "call", "return"):
                saved = st.loc
                st.loc = {n: a for (n, _), a in zip(f["params"], args)}
                try:
                    return self.ev(f["body"][0], st)
                finally:
                    st.loc = saved
        if target is not None and target in self.inline_calls and ("$" + target) in self.m.funcs:
            return self.call_inline(self.m.funcs["$" + target], args, st)
        if target == "__Str$eq":
            # pure: equality of contents (the LIR/MIR side has the `==` operator here)
            a, b = args
            if isinstance(a, Str) and isinstance(b, Str):
                return Int(BV(1 if a.s == b.s else 0))
            if vkey(a) == vkey(b):
                return Int(BV(1))
            ka, kb = sorted([vkey(a), vkey(b)])
            return Int(z3.If(self.w.fact("streq!%s!%s" % (ka, kb)), BV(1), BV(0)))
        idx = len(st.trace)
        name = target if target is not None else "<indirect>"
        st.trace.append((name, callee_val, args))
        if target == "__Process$panic":
            self.paths.append(Path(list(st.pc), list(st.trace), "panic", model=st.model))
            raise _Dead()
        sig = result_type
        if target is not None:
            f = self.m.funcs.get("$" + target)
            sig = f["result"] if f else (self.m.imports.get("$" + target) or {}).get("result")
        rt = heap_type(sig) if sig is not None else "eq"
        key = "ev%d:%s" % (idx, name)
        lt = self.w.ev_types.get(key)
        if rt != "i32" and lt == "int":
            # the reference side receives an int where WASM receives a reference (Vec<int> element): the runtime
            # hands back the boxed int.  Boxing is checked where values are stored (F5), so a value read back is one
            # that fits in 31 bits.
            x = z3.BitVec(key, 32)
            st.pc.append(x == sext31(x))
            st.model = None
            return I31(x)
        if rt == "eq" and isinstance(lt, str) and lt not in ("int", "any", "i31"):
            return Sym(key, lt)
        return self.w.mk(key, "int" if rt == "i32" else ("any" if rt == "eq" else rt))

    def call_inline(self, f, args, st):
        """execute a callee of the runtime library inside the caller's state (shared heap, path condition and
        trace).  Only straight-line executions are supported: a callee whose control flow depends on a symbolic
        value would fork in the middle of an expression."""
        sub = WState()
        sub.loc = {}
        for (n, t), a in zip(f["params"], args):
            sub.loc[n] = a
        for n, t in f["locals"]:
            sub.loc[n] = Int(BV(0)) if t == "i32" else NULL
        sub.pc = st.pc
        sub.trace = st.trace
        sub.steps = 0
        sub.forks = 0
        sub.model = st.model
        sub.heap = st.heap
        sub.stack = [("seq", f["body"], 0, True)]
        outer = self.paths
        self.paths = []
        work = [sub]
        try:
            while work:
                s_ = work.pop()
                if s_ is not sub:
                    raise Unsupported("nested call forks on a symbolic condition")
                self.step(s_, work)
                if len(work) > 1:
                    raise Unsupported("nested call forks on a symbolic condition")
        finally:
            inner = self.paths
            self.paths = outer
            # a trap inside the callee is a trap of the caller
            self.paths.extend(p_ for p_ in inner if p_.outcome != "return")
        rets = [p_ for p_ in inner if p_.outcome == "return"]
        if len(rets) != 1:
            raise _Dead()
        st.model = sub.model
        return rets[0].value

    # ---------------------------------------------------------------- statements / control
    def run(self, fname, args, pc0=(), model0=None):
        f = self.m.funcs["$" + fname]
        st = WState()
        st.loc = {}
        for (n, t), a in zip(f["params"], args):
            st.loc[n] = a
        for n, t in f["locals"]:
            st.loc[n] = Int(BV(0)) if t == "i32" else NULL
        st.pc = list(pc0)
        st.trace = []
        st.steps = 0
        st.forks = 0
        st.model = model0
        st.heap = {}
        st.stack = [("seq", f["body"], 0, True)]
        self.paths = []
        self.result_type = f["result"]
        work = [st]
        while work:
            s = work.pop()
            try:
                self.step(s, work)
            except _Dead:
                pass
            except Budget as e:
                self.paths.append(Path(s.pc, s.trace, "bound", why=str(e)))
            if self.deadline is not None and time.time() > self.deadline and work:
                for s2 in work:
                    self.paths.append(Path(s2.pc, s2.trace, "bound", why="time budget"))
                work = []
            if len(self.paths) + len(work) > self.max_paths:
                for s2 in work:
                    self.paths.append(Path(s2.pc, s2.trace, "bound", why="path budget"))
                work = []
        return self.paths

    def fork(self, st, cond, work, on_true, on_false):
        c = z3.simplify(cond)
        if z3.is_true(c):
            on_true(st)
            work.append(st)
            return
        if z3.is_false(c):
            on_false(st)
            work.append(st)
            return
        in_loop = any(fr[0] == "label" and fr[2] == "loop" for fr in st.stack)
        if in_loop and st.forks >= self.max_forks:
            raise Budget("loop unrolling budget")
        t_m = e_m = None
        if st.model is not None:
            v = st.model.eval(c, model_completion=True)
            if z3.is_true(v):
                t_m = st.model
            elif z3.is_false(v):
                e_m = st.model
        if t_m is None:
            t_m = self.feasible(st.pc + [c])
        if e_m is None:
            e_m = self.feasible(st.pc + [z3.Not(c)])
        if t_m is not None and e_m is not None:
            s2 = st.copy()
            if in_loop:
                st.forks += 1
                s2.forks += 1
            st.pc.append(c)
            st.model = t_m
            s2.pc.append(z3.Not(c))
            s2.model = e_m
            on_true(st)
            on_false(s2)
            work.append(s2)
            work.append(st)
        elif t_m is not None:
            st.pc.append(c)
            st.model = t_m
            on_true(st)
            work.append(st)
        elif e_m is not None:
            st.pc.append(z3.Not(c))
            st.model = e_m
            on_false(st)
            work.append(st)

    def br(self, st, label):
        """unwind to the label frame: block -> continue after it, loop -> restart it"""
        while st.stack:
            fr = st.stack.pop()
            if fr[0] == "label" and fr[1] == label:
                if fr[2] == "loop":
                    st.stack.append(fr)
                    st.stack.append(("seq", fr[3], 0, False))
                return
        raise Unsupported("br to unknown label %s" % label)

    def finish(self, st, value):
        p = Path(st.pc, st.trace, "return", value, model=st.model)
        p.heap = st.heap
        self.paths.append(p)

    def step(self, st, work):
        last_val = None
        while True:
            st.steps += 1
            if st.steps > self.max_steps:
                raise Budget("step budget")
            if not st.stack:
                self.finish(st, last_val)
                return
            fr = st.stack.pop()
            if fr[0] == "label":
                continue
            _, instrs, i, top = fr
            if i >= len(instrs):
                continue
            st.stack.append(("seq", instrs, i + 1, top))
            ins = instrs[i]
            op = ins[0] if isinstance(ins, list) else ins
            if op in ("block", "loop"):
                j = 1
                label = None
                if len(ins) > 1 and isinstance(ins[1], str) and ins[1].startswith("$"):
                    label = ins[1]
                    j = 2
                while j < len(ins) and isinstance(ins[j], list) and ins[j] and ins[j][0] in ("result", "type"):
                    j += 1
                body = ins[j:]
                st.stack.append(("label", label, op, body))
                st.stack.append(("seq", body, 0, False))
                continue
            if op == "if":
                j = 1
                while isinstance(ins[j], list) and ins[j][0] in ("result",):
                    j += 1
                cond = self.i32(self.ev(ins[j], st), "if")
                then_b = else_b = []
                for part in ins[j + 1:]:
                    if part[0] == "then":
                        then_b = part[1:]
                    elif part[0] == "else":
                        else_b = part[1:]
                self.fork(st, cond != BV(0), work,
                          lambda s, b=then_b: s.stack.append(("seq", b, 0, False)),
                          lambda s, b=else_b: s.stack.append(("seq", b, 0, False)))
                return
            if op == "br":
                self.br(st, ins[1])
                continue
            if op == "br_if":
                cond = self.i32(self.ev(ins[2], st), "br_if")
                self.fork(st, cond != BV(0), work, lambda s, l=ins[1]: self.br(s, l), lambda s: None)
                return
            if op == "return":
                v = self.ev(ins[1], st) if len(ins) > 1 else None
                self.finish(st, v)
                return
            if op == "local.set":
                st.loc[ins[1]] = self.ev(ins[2], st)
                continue
            if op == "global.set":
                self.ev(ins[2], st)
                continue
            if op == "drop":
                self.ev(ins[1], st)
                continue
            if op == "struct.set":
                t = ins[1][1:]
                idx = int(ins[2])
                o = self.ev(ins[3], st)
                v = self.ev(ins[4], st)
                if isinstance(o, Obj):
                    cur = list(st.heap.get(("o", id(o)), o.fields))
                    cur[idx] = v
                    st.heap[("o", id(o))] = cur
                    continue
                raise Unsupported("struct.set on %r" % (o,))
            if op == "array.set":
                a = self.ev(ins[2], st)
                i_ = self.i32(self.ev(ins[3], st), op)
                v = self.ev(ins[4], st)
                self.arr_set(a, i_, v, st)
                continue
            if op == "array.copy":
                # (array.copy $dstT $srcT dst dstoff src srcoff n) on arrays of concrete length
                dst = self.ev(ins[3], st)
                doff = z3.simplify(self.i32(self.ev(ins[4], st), op))
                src = self.ev(ins[5], st)
                soff = z3.simplify(self.i32(self.ev(ins[6], st), op))
                n = z3.simplify(self.i32(self.ev(ins[7], st), op))
                de, _, _ = self.arr_parts(dst, st)
                se, _, _ = self.arr_parts(src, st)
                if de is None or se is None or not (z3.is_bv_value(doff) and z3.is_bv_value(soff) and z3.is_bv_value(n)):
                    raise Unsupported("array.copy with a symbolic length or offset")
                d0, s0, k = doff.as_signed_long(), soff.as_signed_long(), n.as_signed_long()
                if k < 0 or d0 < 0 or s0 < 0 or d0 + k > len(de) or s0 + k > len(se):
                    self.may_trap(st, z3.BoolVal(True), "array.copy out of bounds")
                ne = list(de)
                ne[d0:d0 + k] = se[s0:s0 + k]
                key = ("s", dst.key) if isinstance(dst, Sym) else ("a", id(dst))
                st.heap[key] = (ne, None, None)
                continue
            if op == "unreachable":
                self.paths.append(Path(list(st.pc), list(st.trace), "trap", why="unreachable", model=st.model))
                return
            if op == "nop":
                continue
            # value-producing instruction at statement level: the last one of the body is the result
            last_val = self.ev(ins, st)


class _Dead(Exception):
    pass


# ---------------------------------------------------------------------------------------------
# LIR function vs the WAT function generated from it

def val_eq_x(a, b, ex, mod):
    """observable equality of a LIR-side value `a` and a WAT-side value `b`"""
    from . import irsym
    if isinstance(a, Int) and isinstance(b, I31):
        # i31 boxing of an int (builtin receivers, Vec<int> elements): the boxed value must be the int itself
        return a.t == b.t
    if isinstance(a, I31) and isinstance(b, Int):
        return a.t == b.t
    if isinstance(a, Fn) and isinstance(b, Int):
        t = z3.simplify(b.t)
        if z3.is_bv_value(t) and t.as_long() < len(mod.table):
            return z3.BoolVal(mod.table[t.as_long()] == "$" + a.name)
        return z3.BoolVal(False)
    if isinstance(a, Obj) and isinstance(b, Obj):
        if a.ty != b.ty or len(a.fields) != len(b.fields):
            return z3.BoolVal(False)
        return z3.And(*[val_eq_x(x, y, ex, mod) for x, y in zip(a.fields, b.fields)]) if a.fields else z3.BoolVal(True)
    if isinstance(b, Null):
        return z3.BoolVal(False)
    if isinstance(b, Arr):
        return z3.BoolVal(False)
    if isinstance(a, Sym) and isinstance(b, Sym):
        return z3.BoolVal(a.key == b.key) if a.key == b.key else ex.ref_eq(a, b)
    return irsym.val_eq(a, b, ex)


def obs_diff_x(pa, pb, ex, mod, boxing=None):
    """boxing: when a list is given, equalities `int == i31 payload` at Vec builtin calls are collected there
    instead of being required (known finding F5: Vec<int> elements are boxed as i31)"""
    if pa.outcome != pb.outcome:
        return z3.BoolVal(True), "outcome %s vs %s (%s)" % (pa.outcome, pb.outcome, pb.why or pa.why)
    if len(pa.trace) != len(pb.trace):
        return z3.BoolVal(True), "number of observable calls %d vs %d" % (len(pa.trace), len(pb.trace))
    eqs = []
    for (na, ca, aa), (nb, cb, ab) in zip(pa.trace, pb.trace):
        if na != nb or len(aa) != len(ab) or (ca is None) != (cb is None):
            return z3.BoolVal(True), "call sequence differs: %s/%d vs %s/%d" % (na, len(aa), nb, len(ab))
        if ca is not None:
            eqs.append(val_eq_x(ca, cb, ex, mod))
        for x, y in zip(aa, ab):
            if boxing is not None and na.startswith("__Vec$") and isinstance(x, Int) and isinstance(y, I31):
                boxing.append(x.t == y.t)
                continue
            eqs.append(val_eq_x(x, y, ex, mod))
    if pa.outcome == "return" and pa.value is not None and pb.value is not None:
        eqs.append(val_eq_x(pa.value, pb.value, ex, mod))
    if not eqs:
        return z3.BoolVal(False), ""
    return z3.Not(z3.And(*eqs)), "argument or result values differ"


def compare_lir_wat(name, lir, mod, bounds, timeout_s=20):
    from . import irsym
    fa = lir.fns[name]
    if "$" + name not in mod.funcs:
        return {"status": "different", "why": "function missing from the emitted module"}
    fb = mod.funcs["$" + name]
    if len(fa["ptypes"]) != len(fb["params"]):
        return {"status": "different", "why": "parameter count %d vs %d" % (len(fa["ptypes"]), len(fb["params"]))}
    world = World()
    world.is_subtype = mod.is_subtype
    solver = z3.Solver()
    exA = irsym.Exec(lir, world, "ref", False, bounds, solver)
    exB = WExec(mod, world, bounds, solver)
    args = irsym.mk_args(fa, world)
    t0 = time.time()
    tb = (bounds or {}).get("seconds")
    if tb:
        # the reference side may use at most half of the time budget, so that the other side always gets to run
        exA.deadline = t0 + tb / 2.0
        exB.deadline = t0 + tb
    try:
        pathsA = exA.run(name, args)
    except Unsupported as e:
        return {"status": "skipped", "why": "LIR side: %s" % e}
    res = {"status": "equal", "paths_ref": len(pathsA), "paths_new": 0, "pairs": 0, "bound_ref": 0, "bound_new": 0, "queries": 0}
    chk = z3.Solver()
    chk.set("timeout", timeout_s * 1000)
    for pa in pathsA:
        if pa.outcome == "bound":
            res["bound_ref"] += 1
            continue
        try:
            pathsB = exB.run(name, args, pa.pc, pa.model)
        except Unsupported as e:
            return {"status": "skipped", "why": "WAT side: %s" % e}
        res["paths_new"] += len(pathsB)
        for pb in pathsB:
            if pb.outcome == "bound":
                res["bound_new"] += 1
                continue
            res["pairs"] += 1
            diff, why = obs_diff_x(pa, pb, exA, mod)
            d = z3.simplify(diff)
            if z3.is_false(d):
                continue
            res["queries"] += 1
            chk.push()
            chk.add(*pb.pc)
            chk.add(d)
            if world.axioms:
                chk.add(*world.axioms)
            r = chk.check()
            if r == z3.sat:
                m = chk.model()
                chk.pop()
                # is the difference only the i31 boxing of a Vec<int> element (known finding F5)?
                boxing = []
                diff2, why2 = obs_diff_x(pa, pb, exA, mod, boxing)
                if boxing:
                    chk.push()
                    chk.add(*pb.pc)
                    chk.add(z3.simplify(diff2))
                    chk.add(*boxing)
                    if world.axioms:
                        chk.add(*world.axioms)
                    r2 = chk.check()
                    chk.pop()
                    if r2 == z3.unsat:
                        res["vec_i31_boxing"] = res.get("vec_i31_boxing", 0) + 1
                        res.setdefault("boxing_witness", irsym.model_args(m, fa, world))
                        continue
                res.update({"status": "different", "why": why, "witness": irsym.model_args(m, fa, world),
                            "ref_outcome": pa.outcome, "new_outcome": pb.outcome, "new_why": pb.why,
                            "ref_trace": [t[0] for t in pa.trace], "new_trace": [t[0] for t in pb.trace],
                            "ref_value": repr(pa.value), "new_value": repr(pb.value)})
                res["wall_s"] = round(time.time() - t0, 2)
                return res
            chk.pop()
            if r == z3.unknown:
                res["status"] = "inconclusive"
                res["why"] = "solver unknown on an equivalence query"
    if res["status"] == "equal" and res["pairs"] == 0 and (res["bound_ref"] or res["bound_new"]):
        # every path of one side ran into a bound: nothing was compared, which is not "equal"
        res["status"] = "skipped"
        res["why"] = "budget: no pair of paths was completed within the bounds (%d / %d paths cut)" % (res["bound_ref"], res["bound_new"])
    res["wall_s"] = round(time.time() - t0, 2)
    return res
