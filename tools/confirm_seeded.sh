#!/bin/bash
# Confirm a seeded mutant in a scratch worktree of /repo's HEAD (never in /repo itself):
#   1. demo alone passes   2. patch + demo: demo fails   3. patch: the pinned suite still passes (367)
# usage: confirm_seeded.sh <seeded dir>     writes <seeded dir>/confirm.log and prints a one-line verdict
set -u
S=$1
ID=$(basename $S)
WT=/tmp/wt-confirm-$ID
git -C /repo worktree remove --force $WT >/dev/null 2>&1
git -C /repo worktree add -q --detach $WT HEAD || exit 3
cd $WT
export CARGO_NET_OFFLINE=true
DEMO_CMD=$(python3 -c "import json;print(json.load(open('$S/meta.json'))['demo_cmd'])" | sed "s#/tmp/wt-[A-Za-z0-9]*#$WT#g")
{
echo "== demo alone"
git apply $S/demo.diff || echo "DEMO-APPLY-FAILED"
bash -c "$DEMO_CMD" > demo_clean.out 2>&1; R1=$?
tail -5 demo_clean.out
echo "== patch + demo"
git apply $S/patch.diff || echo "PATCH-APPLY-FAILED"
bash -c "$DEMO_CMD" > demo_mut.out 2>&1; R2=$?
tail -5 demo_mut.out
echo "== suite with patch (demo removed)"
git apply -R $S/demo.diff
cargo test --workspace --no-fail-fast --offline 2>&1 | grep "test result" | awk '{p+=$4; f+=$6} END {print "passed="p" failed="f}' > suite.out
cat suite.out
echo "VERDICT $ID demo_clean_exit=$R1 demo_mutant_exit=$R2 $(cat suite.out)"
} > $S/confirm.log 2>&1
tail -1 $S/confirm.log
cd /
git -C /repo worktree remove --force $WT
