// Child module of samlang-heap/src/lib.rs (scratch copy only): Kani proof harnesses for C17.
// The state is constructed directly (no Heap::new()); HashMap/HashSet are the container model
// (harness/heap/vmodel.rs).  Every harness carries a kani::cover! reachability witness.
#![allow(dead_code, unused_imports, unused_variables)]
use super::*;

// ------------------------------------------------------------------------------------------
// R: handle representation

#[cfg(kani)]
fn any_bytes<const N: usize>() -> ([u8; N], usize) {
  let buf: [u8; N] = kani::any();
  let len: usize = kani::any();
  kani::assume(len <= N);
  // 0xFF never occurs in UTF-8; every other byte value is allowed (a superset of all valid strings)
  let mut i = 0;
  while i < N {
    kani::assume(buf[i] != 0xFF);
    i += 1;
  }
  (buf, len)
}

#[cfg(kani)]
#[kani::proof]
#[kani::unwind(17)]
fn repr_inline_roundtrip() {
  let (buf, len) = any_bytes::<15>();
  let s = unsafe { std::str::from_utf8_unchecked(&buf[..len]) };
  let r = PStrPrivateRepr::from_str_opt(s).unwrap();
  // the tag byte of a heap id is never produced by an inline string
  assert!(unsafe { (r.heap_id >> 120) as u8 } != 255);
  assert!(r.as_heap_id().is_none());
  match r.as_inline_str() {
    Ok(back) => {
      assert!(back.len() == len);
      let bb = back.as_bytes();
      let mut i = 0;
      while i < len {
        assert!(bb[i] == buf[i]);
        i += 1;
      }
      kani::cover!(len == 15);
    }
    Err(_) => {
      assert!(false);
    }
  }
}

#[cfg(kani)]
#[kani::proof]
#[kani::unwind(17)]
fn repr_from_string_agrees() {
  // from_string pads with zeros exactly like from_str_opt, so that == on the raw 128 bits is string equality
  let (buf, len) = any_bytes::<15>();
  let s = unsafe { std::str::from_utf8_unchecked(&buf[..len]) };
  let a = PStrPrivateRepr::from_str_opt(s).unwrap();
  let b = PStrPrivateRepr::from_string(s.to_string()).ok().unwrap();
  assert!(a == b);
  assert!(unsafe { a.heap_id == b.heap_id });
  kani::cover!(len == 15);
  kani::cover!(len == 0);
}

#[cfg(kani)]
#[kani::proof]
#[kani::unwind(17)]
fn repr_long_strings_are_not_inlined() {
  let buf: [u8; 16] = kani::any();
  let s = unsafe { std::str::from_utf8_unchecked(&buf[..]) };
  assert!(PStrPrivateRepr::from_str_opt(s).is_none());
  assert!(PStrPrivateRepr::from_string(s.to_string()).is_err());
}

#[cfg(kani)]
#[kani::proof]
#[kani::unwind(17)] // the contents are <= 6 bytes, but an implementation may walk the whole 15-byte inline storage
fn repr_eq_iff_same_string() {
  // two inline strings of up to 6 bytes: equal handles <=> equal strings; Ord is the string order
  let (b1, l1) = any_bytes::<6>();
  let (b2, l2) = any_bytes::<6>();
  let s1 = unsafe { std::str::from_utf8_unchecked(&b1[..l1]) };
  let s2 = unsafe { std::str::from_utf8_unchecked(&b2[..l2]) };
  let r1 = PStrPrivateRepr::from_str_opt(s1).unwrap();
  let r2 = PStrPrivateRepr::from_str_opt(s2).unwrap();
  let mut same = l1 == l2;
  let mut i = 0;
  while i < 6 {
    if i < l1 && i < l2 && b1[i] != b2[i] {
      same = false;
    }
    i += 1;
  }
  assert!((r1 == r2) == same);
  assert!((r1.cmp(&r2) == std::cmp::Ordering::Equal) == same);
  assert!(r1.cmp(&r2) == r2.cmp(&r1).reverse());
  kani::cover!(same && l1 == 6);
  kani::cover!(!same && l1 == l2);
}

#[cfg(kani)]
#[kani::proof]
#[kani::unwind(17)]
fn repr_id_roundtrip() {
  let a: u32 = kani::any();
  let b: u32 = kani::any();
  let ra = PStrPrivateRepr::from_id(a);
  let rb = PStrPrivateRepr::from_id(b);
  assert!(ra.as_heap_id() == Some(a));
  assert!(matches!(ra.as_inline_str(), Err(x) if x == a));
  assert!((ra == rb) == (a == b));
  assert!(ra.cmp(&rb) == a.cmp(&b));
  kani::cover!(a == u32::MAX);
}

#[cfg(kani)]
#[kani::proof]
#[kani::unwind(17)]
fn repr_inline_and_id_never_collide() {
  let (buf, len) = any_bytes::<15>();
  let s = unsafe { std::str::from_utf8_unchecked(&buf[..len]) };
  let r = PStrPrivateRepr::from_str_opt(s).unwrap();
  let id: u32 = kani::any();
  let h = PStrPrivateRepr::from_id(id);
  assert!(r != h);
  assert!(r.cmp(&h) == std::cmp::Ordering::Less);
  assert!(h.cmp(&r) == std::cmp::Ordering::Greater);
  kani::cover!(len == 15 && id == 0);
}

#[cfg(kani)]
#[kani::proof]
#[kani::unwind(6)]
fn repr_const_literal_ctors() {
  let c: u8 = kani::any();
  kani::assume(c < 128);
  let d: u8 = kani::any();
  kani::assume(d < 128);
  let one = PStr::one_letter_literal(c as char);
  let b1 = [c];
  assert!(one.0 == PStrPrivateRepr::from_str_opt(unsafe { std::str::from_utf8_unchecked(&b1) }).unwrap());
  let b2 = [c, d];
  let two = PStr::two_letter_literal(&b2);
  assert!(two.0 == PStrPrivateRepr::from_str_opt(unsafe { std::str::from_utf8_unchecked(&b2) }).unwrap());
  let b3 = [c, d, c];
  let three = PStr::three_letter_literal(&b3);
  assert!(three.0 == PStrPrivateRepr::from_str_opt(unsafe { std::str::from_utf8_unchecked(&b3) }).unwrap());
  kani::cover!(c == 127);
}

// ------------------------------------------------------------------------------------------
// G: one step of the heap from an arbitrary valid small state

// distinct lengths (16..19 bytes): equality of two different strings is decided by the length compare,
// memcmp only runs on identical concrete contents
pub const S: [&str; 4] = ["a-long-string-16", "b-long-string--17", "c-long-string---18", "d-long-string----19"];

#[derive(Clone, Copy, PartialEq, Eq)]
pub enum Kind {
  Perm,
  Temp(bool),
  Dead,
}

#[cfg(kani)]
fn any_kind() -> Kind {
  let k: u8 = kani::any();
  kani::assume(k < 4);
  match k {
    0 => Kind::Perm,
    1 => Kind::Temp(false),
    2 => Kind::Temp(true),
    _ => Kind::Dead,
  }
}

/// A heap whose table has `n` slots holding S[0..n] with the given kinds, and intern maps that
/// satisfy the representation invariant.
pub fn mk_heap(kinds: &[Kind], sweep_index: usize, unmarked: bool) -> Heap {
  // start from the real constructor (so that fields added later keep the value `Heap::new` gives them) and reset
  // the tables this harness describes
  let mut heap = Heap::new();
  heap.str_pointer_table = Vec::new();
  heap.module_reference_pointer_table = Vec::new();
  heap.interned_string = HashMap::new();
  heap.interned_static_str = HashMap::new();
  heap.interned_module_reference = HashMap::new();
  heap.unmarked_module_references = HashSet::new();
  heap.sweep_index = sweep_index;
  for (i, k) in kinds.iter().enumerate() {
    match k {
      Kind::Perm => {
        heap.str_pointer_table.push(StringStoredInHeap::Permanent(S[i]));
        heap.interned_static_str.insert(S[i], i as u32);
      }
      Kind::Temp(m) => {
        heap.str_pointer_table.push(StringStoredInHeap::Temporary(S[i].to_string(), *m));
        heap.interned_string.insert(S[i], i as u32);
      }
      Kind::Dead => heap.str_pointer_table.push(StringStoredInHeap::Deallocated(None)),
    }
  }
  if unmarked {
    heap.unmarked_module_references.insert(ModuleReference(7));
  }
  heap
}

pub fn kind_of(heap: &Heap, i: usize) -> Kind {
  match &heap.str_pointer_table[i] {
    StringStoredInHeap::Permanent(_) => Kind::Perm,
    StringStoredInHeap::Temporary(_, m) => Kind::Temp(*m),
    StringStoredInHeap::Deallocated(_) => Kind::Dead,
  }
}

/// The representation invariant every public operation must preserve.
pub fn invariant(heap: &Heap) -> bool {
  let n = heap.str_pointer_table.len();
  let mut live = 0;
  for i in 0..n {
    match &heap.str_pointer_table[i] {
      StringStoredInHeap::Permanent(s) => {
        if s.len() > 15 {
          live += 1;
          if heap.interned_static_str.get(s) != Some(&(i as u32)) || heap.interned_string.get(s).is_some() {
            return false;
          }
        }
      }
      StringStoredInHeap::Temporary(s, _) => {
        live += 1;
        if heap.interned_string.get(s.as_str()) != Some(&(i as u32)) || heap.interned_static_str.get(s.as_str()).is_some() {
          return false;
        }
      }
      StringStoredInHeap::Deallocated(_) => {}
    }
  }
  // no dangling entries: every intern entry was accounted for above
  heap.interned_static_str.len() + heap.interned_string.len() == live
    && ((n == 0 && heap.sweep_index == 0) || heap.sweep_index < n)
}

// GC steps.  A fully symbolic table makes CBMC run out of memory (measured: > 25 GB), so each harness fixes
// the table and leaves the operation's parameters symbolic (work unit, emptiness of the unmarked-module set,
// chosen slot).  The facts asserted are the ones C17 states: permanent and marked strings survive, unmarked
// temporaries are reclaimed and un-interned, live handles read back, re-allocation after reclaim gives a fresh
// readable handle, promotion to permanent is respected by later sweeps.

#[cfg(kani)]
fn sweep_window_body(unmarked: bool, w: usize) {
  let kinds = [Kind::Temp(false), Kind::Temp(true), Kind::Perm];
  let mut heap = mk_heap(&kinds, 0, unmarked);
  heap.sweep(w);
  let end = if w >= 3 { 3 } else { w };
  let mut i = 0;
  while i < 3 {
    let after = kind_of(&heap, i);
    if unmarked || i >= end {
      assert!(after == kinds[i]);
    } else {
      match kinds[i] {
        Kind::Perm => assert!(after == Kind::Perm),
        Kind::Temp(true) => assert!(after == Kind::Temp(false)),
        Kind::Temp(false) => assert!(after == Kind::Dead),
        Kind::Dead => assert!(after == Kind::Dead),
      }
    }
    i += 1;
  }
  assert!(heap.interned_string.get(S[0]).is_some() == (unmarked || w == 0));
  assert!(heap.interned_string.get(S[1]) == Some(&1));
  assert!(heap.interned_static_str.get(S[2]) == Some(&2));
  assert!(heap.sweep_index == if unmarked { 0 } else if w >= 3 { 0 } else { w });
  std::mem::forget(heap);
}

macro_rules! sweep_harness {
  ($name:ident, $u:expr, $w:expr) => {
    #[cfg(kani)]
    #[kani::proof]
    #[kani::unwind(22)]
    fn $name() {
      sweep_window_body($u, $w);
    }
  };
}
sweep_harness!(gc_sweep_w1, false, 1);
sweep_harness!(gc_sweep_w2, false, 2);
sweep_harness!(gc_sweep_w3, false, 3);
sweep_harness!(gc_sweep_w5, false, 5);
sweep_harness!(gc_sweep_blocked_by_unmarked_module, true, 3);

#[cfg(kani)]
#[kani::proof]
#[kani::unwind(22)]
fn gc_sweep_blocked_mid_table() {
  // a sweep pass suspended in the middle of the table must also wait while a module is still to be marked:
  // strings of that module (or interned for it since) are live although unmarked
  let kinds = [Kind::Temp(false), Kind::Temp(false), Kind::Perm];
  let mut heap = mk_heap(&kinds, 1, true);
  // the work unit is concrete: with a symbolic one an implementation that does sweep here costs CBMC more than
  // ten minutes (measured), and the harness would time out instead of failing
  heap.sweep(2);
  assert!(kind_of(&heap, 0) == Kind::Temp(false));
  assert!(kind_of(&heap, 1) == Kind::Temp(false));
  assert!(kind_of(&heap, 2) == Kind::Perm);
  assert!(heap.interned_string.get(S[0]) == Some(&0));
  assert!(heap.interned_string.get(S[1]) == Some(&1));
  assert!(heap.sweep_index == 1);
  kani::cover!(true);
  std::mem::forget(heap);
}

#[cfg(kani)]
#[kani::proof]
#[kani::unwind(22)]
fn gc_pending_modules_protocol() {
  // every module announced as changed keeps the sweep gate closed until it has been popped itself: popping one
  // pending module must not forget the others.  (Two slots only: each swept slot costs CBMC about 30 s.)
  let kinds = [Kind::Temp(false), Kind::Temp(true)];
  let mut heap = mk_heap(&kinds, 0, false);
  let a: usize = kani::any();
  let b: usize = kani::any();
  kani::assume(a != b);
  heap.add_unmarked_module_reference(ModuleReference(a));
  heap.add_unmarked_module_reference(ModuleReference(b));
  heap.add_unmarked_module_reference(ModuleReference(a)); // announced twice: still one pending entry
  let first = heap.pop_unmarked_module_reference();
  assert!(first == Some(ModuleReference(a)) || first == Some(ModuleReference(b)));
  heap.sweep(2);
  assert!(kind_of(&heap, 0) == Kind::Temp(false)); // gate closed: nothing reclaimed, no mark cleared
  assert!(kind_of(&heap, 1) == Kind::Temp(true));
  assert!(heap.interned_string.get(S[0]) == Some(&0));
  let second = heap.pop_unmarked_module_reference();
  assert!(second == Some(ModuleReference(a)) || second == Some(ModuleReference(b)));
  assert!(second != first);
  assert!(heap.pop_unmarked_module_reference().is_none());
  heap.sweep(2);
  assert!(kind_of(&heap, 0) == Kind::Dead); // gate open now
  assert!(kind_of(&heap, 1) == Kind::Temp(false));
  kani::cover!(true);
  std::mem::forget(heap);
}

#[cfg(kani)]
#[kani::proof]
#[kani::unwind(22)]
fn gc_sweep_rest_with_huge_work_unit() {
  // "sweep whatever is left": a work unit of usize::MAX from the middle of the table finishes the pass
  // (sweep_index + work_unit must not overflow)
  let kinds = [Kind::Temp(false), Kind::Temp(false), Kind::Temp(true)];
  let mut heap = mk_heap(&kinds, 1, false);
  heap.sweep(usize::MAX);
  assert!(kind_of(&heap, 0) == Kind::Temp(false)); // before the resume point: untouched
  assert!(kind_of(&heap, 1) == Kind::Dead);
  assert!(kind_of(&heap, 2) == Kind::Temp(false)); // marked: survives, mark cleared
  assert!(heap.sweep_index == 0);
  kani::cover!(true);
  std::mem::forget(heap);
}

#[cfg(kani)]
#[kani::proof]
#[kani::unwind(22)]
fn gc_sweep_resumes_at_index() {
  // second slice of an incremental sweep: starts where the previous one stopped
  let kinds = [Kind::Temp(false), Kind::Temp(false)];
  let mut heap = mk_heap(&kinds, 1, false);
  heap.sweep(1);
  assert!(kind_of(&heap, 0) == Kind::Temp(false)); // before the window: untouched
  assert!(kind_of(&heap, 1) == Kind::Dead);
  assert!(heap.sweep_index == 0);
  std::mem::forget(heap);
}

#[cfg(kani)]
#[kani::proof]
#[kani::unwind(22)]
fn gc_partial_sweep_then_alloc() {
  // a string interned after a slice of an incremental sweep that did not start at slot 0 must not disturb the
  // live strings in front of the slice (whether or not reclaimed slots are recycled)
  let kinds = [Kind::Perm, Kind::Temp(true), Kind::Temp(false)];
  let mut heap = mk_heap(&kinds, 2, false);
  heap.sweep(2);
  assert!(kind_of(&heap, 2) == Kind::Dead);
  let n = heap.alloc_string(S[3].to_string());
  assert!(kind_of(&heap, 0) == Kind::Perm);
  assert!(kind_of(&heap, 1) == Kind::Temp(true));
  assert!(heap.interned_static_str.get(S[0]) == Some(&0));
  assert!(heap.interned_string.get(S[1]) == Some(&1));
  let slot = n.0.as_heap_id().unwrap() as usize;
  assert!(slot >= 2);
  assert!(n.as_str(&heap).len() == S[3].len());
  let again = heap.alloc_string(S[1].to_string());
  assert!(again.0.as_heap_id() == Some(1)); // the live string in front of the slice is still interned
  kani::cover!(true);
  std::mem::forget(heap);
}

#[cfg(kani)]
#[kani::proof]
#[kani::unwind(22)]
fn temp_counter_sync_never_drops_a_slot() {
  // the temporary-name protocol: a counter is created (or starts anywhere), the heap may grow while the counter is
  // alive, then the counter is synchronised.  Synchronising may only reserve slots; it never removes or rewrites a
  // slot that holds a string (live temporaries, permanent strings), whatever the counter's value is.
  let kinds = [Kind::Perm, Kind::Temp(true), Kind::Temp(false)];
  let mut heap = mk_heap(&kinds, 0, false);
  // the counter is a number; the names it hands out (`format!("_t{id}")`) are inline handles and never touch the table,
  // so the counter's value after any number of hand-outs is what matters
  let target_u32: u32 = kani::any();
  kani::assume(target_u32 <= 8);
  let counter = TempPStrCounter::new(target_u32);
  heap.sync_temp_counter(&counter);
  let target = target_u32 as usize;
  assert!(heap.str_pointer_table.len() >= 3);
  assert!(heap.str_pointer_table.len() >= target);
  assert!(kind_of(&heap, 0) == kinds[0]);
  assert!(kind_of(&heap, 1) == kinds[1]);
  assert!(kind_of(&heap, 2) == kinds[2]);
  assert!(PStr(PStrPrivateRepr::from_id(2)).as_str(&heap).len() == S[2].len());
  // a counter created now starts behind every slot: the names it hands out are fresh
  assert!(heap.create_temp_counter().current() as usize >= heap.str_pointer_table.len());
  kani::cover!(target < 3);
  kani::cover!(target > 3);
  std::mem::forget(heap);
}

#[cfg(kani)]
#[kani::proof]
#[kani::unwind(22)]
fn gc_mark_behind_cursor_survives_round_end() {
  // a round swept in several slices: a string marked BEHIND the cursor, in the same round, has been marked since the
  // sweeper last passed it; it survives the end of the round and the sweeper's next pass over its slot
  let mut heap = mk_heap(&[Kind::Temp(true), Kind::Temp(true)], 0, false);
  heap.sweep(1); // passes slot 0
  assert!(kind_of(&heap, 0) != Kind::Dead);
  heap.mark(PStr(PStrPrivateRepr::from_id(0))); // behind the cursor
  heap.sweep(1); // passes slot 1, the cursor wraps: end of the round
  assert!(kind_of(&heap, 0) != Kind::Dead);
  heap.sweep(1); // next round reaches slot 0
  assert!(kind_of(&heap, 0) != Kind::Dead);
  assert!(PStr(PStrPrivateRepr::from_id(0)).as_str(&heap).len() == S[0].len());
  // slot 1 was not marked again: it goes with the sweeper's next pass over it
  heap.sweep(1);
  assert!(kind_of(&heap, 1) == Kind::Dead);
  std::mem::forget(heap);
}

#[cfg(kani)]
#[kani::proof]
#[kani::unwind(22)]
fn gc_mark_step() {
  let kinds = [Kind::Temp(false), Kind::Temp(true)];
  let mut heap = mk_heap(&kinds, 0, false);
  let k: usize = kani::any();
  kani::assume(k < 2);
  heap.mark(PStr(PStrPrivateRepr::from_id(k as u32)));
  heap.mark(PStr::LOWER_A); // inline handles are ignored
  assert!(kind_of(&heap, k) == Kind::Temp(true));
  assert!(kind_of(&heap, 1 - k) == kinds[1 - k]);
  kani::cover!(k == 0);
  std::mem::forget(heap);
}

#[cfg(kani)]
#[kani::proof]
#[kani::unwind(22)]
fn marked_survives_one_round_only() {
  let mut heap = mk_heap(&[Kind::Temp(false)], 0, false);
  heap.mark(PStr(PStrPrivateRepr::from_id(0)));
  heap.sweep(1);
  assert!(kind_of(&heap, 0) == Kind::Temp(false)); // marked since the sweeper last passed: kept
  assert!(PStr(PStrPrivateRepr::from_id(0)).as_str(&heap).len() == S[0].len());
  heap.sweep(1);
  assert!(kind_of(&heap, 0) == Kind::Dead); // not marked again: reclaimed
  std::mem::forget(heap);
}

#[cfg(kani)]
#[kani::proof]
#[kani::unwind(22)]
fn promote_static_makes_slot_permanent() {
  // a temporary that is later interned through the static path (alloc_str_for_test / module-reference parts)
  // must become permanent in the table -- otherwise the next sweep reclaims a string the heap treats as permanent
  let mut heap = mk_heap(&[Kind::Temp(false)], 0, false);
  let p = heap.alloc_str_internal(S[0]);
  assert!(p.0.as_heap_id() == Some(0)); // same string => same handle
  assert!(kind_of(&heap, 0) == Kind::Perm);
  std::mem::forget(heap);
}

#[cfg(kani)]
#[kani::proof]
#[kani::unwind(22)]
fn make_permanent_then_sweep() {
  let m = false;
  let mut heap = mk_heap(&[Kind::Temp(m)], 0, false);
  heap.make_string_permanent(PStr(PStrPrivateRepr::from_id(0)));
  assert!(kind_of(&heap, 0) == Kind::Perm);
  assert!(heap.interned_static_str.get(S[0]) == Some(&0));
  assert!(heap.interned_string.get(S[0]).is_none());
  heap.sweep(1);
  heap.sweep(1);
  assert!(kind_of(&heap, 0) == Kind::Perm);
  assert!(PStr(PStrPrivateRepr::from_id(0)).as_str(&heap).len() == S[0].len());
  std::mem::forget(heap);
}

#[cfg(kani)]
#[kani::proof]
#[kani::unwind(22)]
fn realloc_after_reclaim_is_fresh() {
  let mut heap = mk_heap(&[Kind::Temp(false)], 0, false);
  heap.sweep(1);
  assert!(kind_of(&heap, 0) == Kind::Dead);
  let p = heap.alloc_string(S[0].to_string());
  // whichever slot the implementation picks (a fresh one today), the handle names a live temporary with that text
  let slot = p.0.as_heap_id().unwrap() as usize;
  assert!(p.as_str(&heap).len() == S[0].len());
  assert!(kind_of(&heap, slot) == Kind::Temp(false));
  let q = heap.alloc_string(S[0].to_string());
  assert!(p == q); // injective: equal strings, equal handles
  std::mem::forget(heap);
}

#[cfg(kani)]
#[kani::proof]
#[kani::unwind(22)]
fn alloc_string_interns() {
  let first_is_perm: bool = kani::any();
  let mut heap = mk_heap(&[if first_is_perm { Kind::Perm } else { Kind::Temp(false) }], 0, false);
  let which: usize = kani::any();
  kani::assume(which < 2);
  let p = heap.alloc_string(S[which].to_string());
  assert!(p.0.as_heap_id() == Some(which as u32)); // existing string: its slot; new string: the next slot
  assert!(p.as_str(&heap).len() == S[which].len());
  if which == 0 {
    assert!(kind_of(&heap, 0) == if first_is_perm { Kind::Perm } else { Kind::Temp(false) });
  } else {
    assert!(kind_of(&heap, 1) == Kind::Temp(false));
  }
  kani::cover!(which == 1 && first_is_perm);
  std::mem::forget(heap);
}
