"""E-TS: the TypeScript the compiler emits, read back into the IR that vlib/irsym.py executes.

The TypeScript back end prints one statement per line from the same LIR the WebAssembly back end lowers.  This module
parses that text (function by function) and rebuilds statements of the JSON IR (`bin`, `not`, `idx`, `struct`, `if`,
`sif`, `while`, `break`, `ldecl`, `lassign`, `call`, ...) with JavaScript's meaning of each line: declarations and
assignments are sequential, `while (true)` loops end at `break`, `as` casts are erased (they never fail), `typeof x ===
'object'` tests "not a number".  A numeric literal is an i32 where the TypeScript type is `number` and the i31
`(n - 1) / 2` where it is a reference type (the printer writes the data-free variant k as 2k + 1).

Only what the printer emits is accepted; anything else raises Unsupported and the function is skipped (and counted).
"""
import re

from .irsym import Unsupported

OPS = {"+": "PLUS", "-": "MINUS", "*": "MUL", "/": "DIV", "%": "MOD", "<": "LT", "<=": "LE", ">": "GT", ">=": "GE",
       "==": "EQ", "!=": "NE", "===": "EQ", "!==": "NE", "^": "XOR", "&": "LAND", "|": "LOR", "<<": "SHL", ">>>": "SHR", ">>": "SHR"}
IDENT = r"[A-Za-z_$][\w$]*"
ATOM = r"(?:-?\d+|" + IDENT + r")"


def ir_type(ts):
    ts = ts.strip()
    if ts == "number":
        return "int"
    if ts in ("any", "i31"):
        return "any"
    if ts.startswith("("):
        m = re.match(r"^\((.*)\) => (.+)$", ts)
        if not m:
            raise Unsupported("function type %r" % ts)
        args = [ir_type(a.split(":", 1)[1]) for a in split_top(m.group(1))] if m.group(1).strip() else []
        return {"fn": {"args": args, "ret": ir_type(m.group(2))}}
    if re.match("^" + IDENT + "$", ts):
        return {"id": ts}
    raise Unsupported("type %r" % ts)


def split_top(s):
    out, depth, cur = [], 0, ""
    for ch in s:
        if ch in "([":
            depth += 1
        elif ch in ")]":
            depth -= 1
        if ch == "," and depth == 0:
            out.append(cur.strip())
            cur = ""
        else:
            cur += ch
    if cur.strip():
        out.append(cur.strip())
    return out


class Module:
    def __init__(self, text):
        self.structs = {}        # type name -> [field ir types]
        self.sigs = {}           # function name -> ([param ir types], ret ir type)
        self.strings = {}        # GLOBAL_STRING_k -> content
        self.fn_lines = {}       # function name -> (header, [body lines])
        lines = text.split("\n")
        i = 0
        while i < len(lines):
            ln = lines[i]
            m = re.match(r"^type (" + IDENT + r") = \[(.*)\];$", ln)
            if m:
                self.structs[m.group(1)] = [ir_type(t) for t in split_top(m.group(2))]
            m = re.match(r"^const (GLOBAL_STRING_\d+): _Str = \[0, `(.*)` as unknown as number\];$", ln, re.S)
            if m:
                # the IR executor resolves samlang's escapes in every {"s": ..}; what JavaScript resolves beyond those
                # (escaped backtick / dollar sign, \x00) is resolved here, and the rest is left in escaped form
                self.strings[m.group(1)] = re.sub(r"\\x([0-9a-fA-F]{2})", lambda mm: "\\0" if mm.group(1) == "00" else chr(int(mm.group(1), 16)), m.group(2).replace("\\`", "`").replace("\\$", "$"))
            m = re.match(r"^const (" + IDENT + r") = \((.*?)\): (.+?) => ", ln)
            if m and not m.group(1).startswith("GLOBAL_STRING"):
                ps = []
                for a in split_top(m.group(2)):
                    if ":" not in a:
                        ps.append("any")
                        continue
                    t = a.rsplit(":", 1)[1].strip()
                    if a.split(":", 1)[0].strip() == "_":
                        ps.append("any")       # the placeholder receiver of a builtin: printed from an i31 literal
                        continue
                    ps.append("int" if t == "number" else ("any" if t in ("any", "_Vec") else ({"id": "_Str"} if t == "_Str" else "any")))
                rt = m.group(3).strip()
                self.sigs[m.group(1)] = (ps, "int" if rt == "number" else ({"id": "_Str"} if rt == "_Str" else "any"))
            m = re.match(r"^function (" + IDENT + r")\((.*)\): (.+) \{$", ln)
            if m:
                name = m.group(1)
                params = []
                for a in split_top(m.group(2)):
                    pn, pt = a.split(":", 1)
                    params.append((pn.strip(), ir_type(pt)))
                body = []
                i += 1
                while i < len(lines) and lines[i] != "}":
                    body.append(lines[i])
                    i += 1
                self.sigs[name] = ([t for _, t in params], ir_type(m.group(3)))
                self.fn_lines[name] = (params, ir_type(m.group(3)), body)
            i += 1

    # ------------------------------------------------------------------ one function
    def function(self, name):
        params, rt, body = self.fn_lines[name]
        tr = _Fn(self, dict(params))
        stmts, retval = tr.block(block_scoped([l.strip() for l in body if l.strip()], [p for p, _ in params]), top=True)
        return {"name": name, "params": [p for p, _ in params], "ptypes": [t for _, t in params], "ret": rt,
                "body": stmts, "retval": retval if retval is not None else {"i": 0}}


def block_scoped(lines, params):
    """JavaScript scoping made explicit: `let` / `const` inside a nested block declares a NEW variable that shadows a
    variable of the same name of an enclosing scope until the block ends (`var` is function scoped and never shadows).
    A shadowing declaration and its uses inside the block are renamed, so that the IR rebuilt from the text, which has
    one name space per function, means what JavaScript means."""
    scopes = [set(params)]          # names declared per open block; scopes[0] is the function scope
    renames = [{}]                  # per open block: name -> new name
    out = []
    fresh = 0

    def rewrite(ln):
        active = {}
        for r in renames:
            active.update(r)
        for old_, new_ in active.items():
            ln = re.sub(r"(?<![A-Za-z0-9_$])" + re.escape(old_) + r"(?![A-Za-z0-9_$])", new_.replace("\\", "\\\\"), ln)
        return ln
    for ln in lines:
        if ln == "}" or ln == "} else {":
            if len(scopes) > 1:
                scopes.pop()
                renames.pop()
        m = re.match(r"^(let|const|var) (" + IDENT + r")\b", ln)
        if m and m.group(1) != "var" and len(scopes) > 1 and any(m.group(2) in sc for sc in scopes[:-1]) and m.group(2) not in scopes[-1]:
            # the right-hand side still sees the outer variable (TDZ aside): rewrite it first, then the declared name
            fresh += 1
            new_name = "%s$shadow%d" % (m.group(2), fresh)
            head, sep, rhs = ln.partition(" = ")
            ln2 = re.sub(r"(?<![A-Za-z0-9_$])" + re.escape(m.group(2)) + r"(?![A-Za-z0-9_$])", new_name, head, count=1)
            ln = ln2 + sep + rewrite(rhs) if sep else ln2
            renames[-1][m.group(2)] = new_name
            scopes[-1].add(m.group(2))
            out.append(ln)
        else:
            if m:
                (scopes[0] if m.group(1) == "var" else scopes[-1]).add(m.group(2))
            out.append(rewrite(ln))
        if ln.endswith("{"):
            scopes.append(set())
            renames.append({})
    return out


class _Fn:
    def __init__(self, mod, types):
        self.m = mod
        self.ty = types            # variable -> ir type
        self.tmp = 0

    def is_int(self, t):
        return t == "int"

    def atom(self, a, want=None):
        """expression of an identifier / literal; `want`: the type of the position it appears in"""
        a = a.strip()
        if re.match(r"^-?\d+$", a):
            n = int(a)
            if want == "#ref":
                # compared with a reference: the number is the printed form 2k + 1 of the i31 k
                if n % 2 == 0:
                    raise Unsupported("even literal %d compared with a reference" % n)
                return {"i31": (n - 1) // 2}
            # anywhere else a literal is a JavaScript number; irsym compares the number n with the i31 (n - 1) / 2
            return {"i": n}
        if a in self.m.strings:
            return {"s": self.m.strings[a]}      # (escapes are resolved when the IR is executed, see strings below)
        if a in self.ty:
            return {"v": a, "t": self.ty[a]}
        if a in self.m.sigs:
            ps, rt = self.m.sigs[a]
            return {"fn": a, "ft": {"args": ps, "ret": rt}}
        raise Unsupported("unknown identifier %r" % a)

    def type_of_atom(self, a):
        a = a.strip()
        if re.match(r"^-?\d+$", a):
            return None
        if a in self.m.strings:
            return {"id": "_Str"}
        if a in self.ty:
            return self.ty[a]
        if a in self.m.sigs:
            return {"fn": {"args": self.m.sigs[a][0], "ret": self.m.sigs[a][1]}}
        raise Unsupported("unknown identifier %r" % a)

    def define(self, n, declared, rhs, out):
        """`let n[: declared] = rhs;`"""
        rhs = rhs.strip()
        dt = ir_type(declared) if declared else None
        # erased casts (possibly chained): `E as unknown as T`, `E as T`
        m = re.match(r"^(.*?) as unknown as (.+)$", rhs) or re.match(r"^(" + ATOM + r"|undefined) as (.+)$", rhs)
        if m:
            inner, tt = m.group(1).strip(), ir_type(m.group(2))
            t = dt or tt
            if inner in ("undefined", "undefined as any"):
                self.ty[n] = t
                out.append({"k": "ldecl", "n": n, "t": t})
                return
            if not re.match("^" + ATOM + "$", inner):
                raise Unsupported("cast of a compound expression %r" % rhs)
            self.ty[n] = t
            out.append({"k": "lassign", "n": n, "e": self.atom(inner, t)})
            return
        m = re.match(r"^Number\((" + ATOM + r")\[1\] (===|!==) (" + ATOM + r")\[1\]\)$", rhs)
        if m:
            self.ty[n] = "int"
            out.append({"k": "bin", "n": n, "op": OPS[m.group(2)], "e1": self.atom(m.group(1), {"id": "_Str"}), "e2": self.atom(m.group(3), {"id": "_Str"})})
            return
        m = re.match(r"^Number\((" + ATOM + r") (===|!==|==|!=|<=|>=|<|>) (" + ATOM + r")\)$", rhs)
        if m:
            a, op, b = m.groups()
            ta, tb = self.type_of_atom(a), self.type_of_atom(b)
            ref = (ta is not None and not self.is_int(ta)) or (tb is not None and not self.is_int(tb))
            want = "#ref" if ref else "int"
            self.ty[n] = "int"
            out.append({"k": "bin", "n": n, "op": OPS[op], "e1": self.atom(a, ta or want), "e2": self.atom(b, tb or want), "js": op})
            return
        m = re.match(r"^Math\.floor\((" + ATOM + r") / (" + ATOM + r")\)$", rhs)
        if m:
            self.ty[n] = "int"
            out.append({"k": "bin", "n": n, "op": "DIV", "e1": self.atom(m.group(1), "int"), "e2": self.atom(m.group(2), "int")})
            return
        m = re.match(r"^(" + ATOM + r") (\+|-|\*|%|\^|&|\||<<|>>>|>>) (" + ATOM + r")$", rhs)
        if m:
            self.ty[n] = "int"
            out.append({"k": "bin", "n": n, "op": OPS[m.group(2)], "e1": self.atom(m.group(1), "int"), "e2": self.atom(m.group(3), "int")})
            return
        m = re.match(r"^!(" + ATOM + r")$", rhs)
        if m:
            self.ty[n] = "int"
            out.append({"k": "not", "n": n, "e": self.atom(m.group(1), "int"), "jsbool": True})
            return
        m = re.match(r"^typeof (" + ATOM + r") === 'object'$", rhs)
        if m:
            self.ty[n] = "int"
            out.append({"k": "isptr", "n": n, "pt": "#object", "e": self.atom(m.group(1), "any")})
            return
        m = re.match(r"^\[(.*)\]$", rhs)
        if m:
            if dt is None or "id" not in dt or dt["id"] not in self.m.structs:
                raise Unsupported("array literal without a struct type: %r" % rhs)
            fts = self.m.structs[dt["id"]]
            parts = split_top(m.group(1))
            if len(parts) != len(fts):
                raise Unsupported("array literal of %d elements for %s" % (len(parts), dt["id"]))
            self.ty[n] = dt
            out.append({"k": "struct", "n": n, "t": dt, "es": [self.atom(p, ft) for p, ft in zip(parts, fts)]})
            return
        m = re.match(r"^(" + IDENT + r")\[(\d+)\]$", rhs)
        if m:
            base, idx = m.group(1), int(m.group(2))
            bt = self.type_of_atom(base)
            ft = dt
            if ft is None:
                if isinstance(bt, dict) and bt.get("id") in self.m.structs:
                    ft = self.m.structs[bt["id"]][idx]
                else:
                    raise Unsupported("untyped index access %r" % rhs)
            self.ty[n] = ft
            out.append({"k": "idx", "n": n, "t": ft, "e": self.atom(base), "i": idx})
            return
        m = re.match(r"^(" + IDENT + r")\((.*)\)$", rhs)
        if m:
            self.call(m.group(1), m.group(2), n, dt, out)
            return
        if re.match("^" + ATOM + "$", rhs):
            t = dt or self.type_of_atom(rhs) or "int"
            self.ty[n] = t
            out.append({"k": "lassign", "n": n, "e": self.atom(rhs, t)})
            return
        raise Unsupported("TypeScript expression %r" % rhs)

    def call(self, fname, argtext, rc, dt, out):
        args = split_top(argtext)
        if fname in self.ty:
            ft = self.ty[fname]
            if not (isinstance(ft, dict) and "fn" in ft):
                raise Unsupported("call of a non-function variable %s" % fname)
            ps, rt = ft["fn"]["args"], ft["fn"]["ret"]
            f = {"var": {"v": fname, "t": ft}}
        elif fname in self.m.sigs:
            ps, rt = self.m.sigs[fname]
            f = {"var": {"fn": fname, "ft": {"args": ps, "ret": rt}}}
        else:
            raise Unsupported("call of unknown function %s" % fname)
        if len(ps) != len(args):
            raise Unsupported("call of %s with %d arguments" % (fname, len(args)))
        if rc is not None:
            self.ty[rc] = dt or rt
        out.append({"k": "call", "f": f, "args": [self.atom(a, p) for a, p in zip(args, ps)], "rt": (dt or rt) if rc is not None else rt, "rc": rc})

    # ------------------------------------------------------------------ statements
    def block(self, lines, top=False):
        out = []
        retval = None
        i = 0
        while i < len(lines):
            ln = lines[i]
            m = re.match(r"^(?:let|var|const) (" + IDENT + r")(?:: (.+?))? = (.*);$", ln)
            if m:
                self.define(m.group(1), m.group(2), m.group(3), out)
                i += 1
                continue
            m = re.match(r"^(?:let|var) (" + IDENT + r"): (.+);$", ln)
            if m:
                t = ir_type(m.group(2))
                self.ty[m.group(1)] = t
                out.append({"k": "ldecl", "n": m.group(1), "t": t})
                i += 1
                continue
            m = re.match(r"^(" + IDENT + r") = (" + ATOM + r");$", ln)
            if m:
                n = m.group(1)
                if n not in self.ty:
                    raise Unsupported("assignment to an undeclared variable %s" % n)
                out.append({"k": "lassign", "n": n, "e": self.atom(m.group(2), self.ty[n])})
                i += 1
                continue
            m = re.match(r"^if \((!?)(" + ATOM + r")\) \{$", ln)
            if m:
                neg, c = m.group(1) == "!", m.group(2)
                then_lines, j = self.until_close(lines, i + 1)
                else_lines = None
                if lines[j] == "} else {":
                    else_lines, j = self.until_close(lines, j + 1)
                if lines[j] != "}":
                    raise Unsupported("unbalanced if")
                s1, r1 = self.block(then_lines)
                s2, r2 = self.block(else_lines) if else_lines is not None else ([], None)
                if r1 is not None or r2 is not None:
                    raise Unsupported("return inside a conditional")
                cond = self.atom(c, "int")
                if else_lines is None:
                    out.append({"k": "sif", "c": cond, "inv": neg, "s": s1})
                else:
                    out.append({"k": "if", "c": cond, "s1": s2 if neg else s1, "s2": s1 if neg else s2, "fa": []})
                i = j + 1
                continue
            if ln == "while (true) {":
                body_lines, j = self.until_close(lines, i + 1)
                if lines[j] != "}":
                    raise Unsupported("unbalanced while")
                body, r = self.block(body_lines)
                if r is not None:
                    raise Unsupported("return inside a loop")
                out.append({"k": "while", "lv": [], "s": body, "bc": None})
                i = j + 1
                continue
            if ln == "break;":
                out.append({"k": "break", "e": {"i": 0}})
                i += 1
                continue
            m = re.match(r"^return (" + ATOM + r");$", ln)
            if m:
                if not top or i != len(lines) - 1:
                    raise Unsupported("return that is not the last statement")
                retval = self.atom(m.group(1))
                i += 1
                continue
            m = re.match(r"^(" + IDENT + r")\((.*)\);$", ln)
            if m:
                self.call(m.group(1), m.group(2), None, None, out)
                i += 1
                continue
            raise Unsupported("TypeScript statement %r" % ln)
        return out, retval

    @staticmethod
    def until_close(lines, start):
        """lines[start:j] is the block body; lines[j] is the line that closes it (`}` or `} else {`)"""
        depth = 0
        j = start
        while j < len(lines):
            ln = lines[j]
            if ln == "} else {":
                if depth == 0:
                    return lines[start:j], j
            elif ln.endswith("{"):
                depth += 1
            elif ln == "}":
                if depth == 0:
                    return lines[start:j], j
                depth -= 1
            j += 1
        raise Unsupported("unterminated block")
