// Child module of samlang-compiler/src/hir_lowering.rs (scratch copy only): runs compile_sources_to_mir
// stage by stage (the same calls in the same order as the real function) and hands every intermediate
// MIR to a callback, so that each stage can be validated against the previous one.
#![allow(dead_code, unused_imports)]
use super::*;

pub fn compile_sources_to_mir_staged(
  heap: &mut Heap,
  sources: &HashMap<ModuleReference, source::Module<Arc<type_::Type>>>,
  mut snapshot: impl FnMut(&str, &Heap, &mir::Sources),
  mut hir_snapshot: impl FnMut(&Heap, &hir::Sources),
) -> mir::Sources {
  let sources = compile_sources_with_generics_preserved(heap, sources);
  hir_snapshot(heap, &sources);
  let mut sources = mir_generics_specialization::perform_generics_specialization(heap, sources);
  snapshot("s1_specialized", heap, &sources);
  sources = mir_type_deduplication::deduplicate(sources);
  snapshot("s2_deduplicated", heap, &sources);
  sources = mir_constant_param_elimination::rewrite_sources(sources);
  snapshot("s3_const_param_eliminated", heap, &sources);
  sources = optimize_by_tail_rec_rewrite(heap, sources);
  snapshot("s4_tail_rec_rewritten", heap, &sources);
  sources
}
