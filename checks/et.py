"""E-T driver: translation validation of MIR -> MIR (optimizer configurations, C02(b)) and of the
later pipeline stages on a corpus of programs.  The real compiler runs natively (driver `dump`);
the solver proves each output function equivalent to its input function for all argument values
within the stated bounds."""
import concurrent.futures
import glob
import json
import os
import time

from vlib import irsym
from vlib.common import Inconclusive, VERIF, REPO, log

QUICK_CFGS = ["11111", "00000", "10000", "01000", "00100", "00010", "00001", "11101"]
ALL_CFGS = ["%s" % format(i, "05b") for i in range(32)]

QUICK_BOUNDS = {"forks": 10, "steps": 4000, "paths": 200, "depth": 2, "seconds": 20,
                "main_bounds": {"forks": 14, "steps": 40000, "paths": 2000, "depth": 6, "seconds": 150}}
THOROUGH_BOUNDS = {"forks": 18, "steps": 20000, "paths": 1500, "depth": 4, "seconds": 240,
                   "main_bounds": {"forks": 18, "steps": 100000, "paths": 6000, "depth": 8, "seconds": 600}}


def corpus(sc, tier):
    """list of (program name, [module=path ...]).  Shape-directed programs in /verif/corpus (each a closed program
    with a Main class) plus, in the thorough tier, the repository's own tests/*.sam compiled as sconfig.json does."""
    progs = []
    for f in sorted(glob.glob(os.path.join(VERIF, "corpus", "*.sam"))):
        name = os.path.splitext(os.path.basename(f))[0]
        progs.append((name, ["%s=%s" % (name, f)]))
    tests = sorted(glob.glob(os.path.join(sc.w, "tests", "*.sam")))
    if tests:
        mods = ["tests.%s=%s" % (os.path.splitext(os.path.basename(f))[0], f) for f in tests]
        mods += ["std.%s=%s" % (os.path.splitext(os.path.basename(f))[0], f) for f in sorted(glob.glob(os.path.join(sc.w, "std", "*.sam")))]
        progs.append(("repo-tests", mods))
    return progs


# a large program (the repository's tests + std, several hundred functions) is split into this many jobs per
# comparison so that the functions are spread over the worker processes instead of running one after the other
CHUNKS = 14


def _selected(only, idx, name):
    if only is None:
        return True
    if isinstance(only, tuple):
        return idx % only[2] == only[1]
    return only in name


def _chunked(jobs):
    out = []
    for j in jobs:
        if j[0] == "repo-tests" and j[-1] is None and not str(j[3]).startswith("whole"):
            out += [j[:-1] + (("chunk", k, CHUNKS),) for k in range(CHUNKS)]
        else:
            out.append(j)
    return out


def _compare_lirwat(job):
    (prog, fileA, fileB, mode, bounds, only) = job
    from vlib import wat
    L = irsym.Prog(json.load(open(fileA)))
    M = wat.Module(open(fileB).read())
    out = []
    for idx, n in enumerate(L.fns):
        if not _selected(only, idx, n):
            continue
        t0 = time.time()
        try:
            r = wat.compare_lir_wat(n, L, M, bounds)
        except irsym.Unsupported as e:
            r = {"status": "skipped", "why": str(e)}
        except irsym.Budget as e:
            r = {"status": "skipped", "why": "budget: %s" % e}
        except Exception as e:  # noqa
            import traceback
            r = {"status": "error", "why": "%r %s" % (e, traceback.format_exc()[-600:])}
        r["fn"] = n
        r["wall_s"] = round(time.time() - t0, 2)
        out.append(r)
    return (prog, os.path.basename(fileA), os.path.basename(fileB), mode, out, [])


def _compare_one(job):
    (prog, fileA, fileB, mode, bounds, only) = job
    if mode == "lirwat":
        return _compare_lirwat(job)
    ignore_types = False
    mains_only = False
    loose = mode.endswith("+loose")
    if loose:
        mode = mode[:-6]
    divtraps = mode.endswith("+divtraps")
    if divtraps:
        mode = mode[:-9]
    if mode.startswith("whole"):
        # whole-program comparison from the entry points (signatures may differ between the snapshots)
        mains_only = True
        ignore_types = mode.endswith("+anytype")
        mode = "enter"
    A = irsym.Prog(json.load(open(fileA)))
    B = irsym.Prog(json.load(open(fileB)))
    out = []
    names = [n for n in B.fns if n in A.fns]
    if mains_only:
        names = [n for n in names if n in B.mains]
    if only:
        names = [n for i, n in enumerate(names) if _selected(only, i, n)]
    if divtraps:
        # second pass, only for functions that divide: the reference side's division traps are outcomes
        names = [n for n in names if '"op": "DIV"' in json.dumps(A.fns[n]["body"]) or '"op": "MOD"' in json.dumps(A.fns[n]["body"])]
    for n in names:
        t0 = time.time()
        # with inlining, small corpus functions disappear into `main`: the entry points get a deeper budget so that the
        # inlined code is still compared (with the per-function budget every path of main ended at the call-depth bound)
        b_ = bounds
        if mode == "enter" and n in B.mains and isinstance(bounds, dict) and bounds.get("main_bounds") and not mains_only:
            b_ = bounds["main_bounds"]
        try:
            r = irsym.compare_function(n, A, B, b_, enter=(mode == "enter"), ignore_type_names=ignore_types, loose_refs=loose,
                                       ref_div_traps=divtraps)
        except irsym.Unsupported as e:
            r = {"status": "skipped", "why": str(e)}
        except irsym.Budget as e:
            r = {"status": "skipped", "why": "budget: %s" % e}
        except Exception as e:  # noqa
            import traceback
            r = {"status": "error", "why": "%r %s" % (e, traceback.format_exc()[-600:])}
        r["fn"] = n
        r["divtraps"] = divtraps
        r["wall_s"] = round(time.time() - t0, 2)
        out.append(r)
    dropped = sorted(set(A.fns) - set(B.fns)) if not (isinstance(only, tuple) and only[1] != 0) else []
    return (prog, os.path.basename(fileA), os.path.basename(fileB), mode, out, dropped)


def run_mir_opt(res, tier, sc, drv, only_prog=None, only_fn=None):
    """C02(b): unoptimized MIR vs optimize_sources(cfg) for each configuration, per corpus function."""
    cfgs = QUICK_CFGS if tier == "quick" else ALL_CFGS
    bounds = QUICK_BOUNDS if tier == "quick" else THOROUGH_BOUNDS
    outroot = os.path.join(sc.root, "et")
    jobs = []
    programs = []
    for name, mods in corpus(sc, tier):
        if only_prog and only_prog != name:
            continue
        if tier == "quick" and name == "repo-tests" and not only_prog:
            use = ["11111", "11101"]
        else:
            use = cfgs
        od = os.path.join(outroot, name)
        p = drv.call(["dump", od, ",".join(use)] + mods, check=False, timeout=600)
        try:
            status = json.loads(p.stdout.strip().split("\n")[-1])
        except Exception:
            raise Inconclusive("driver dump failed for %s: %s" % (name, (p.stdout + p.stderr)[-500:]))
        if status.get("status") != "ok":
            if status.get("status") == "panic":
                res.violation("the compiler panics on corpus program %s" % name, {"program": mods, "status": status})
                continue
            raise Inconclusive("corpus program %s is not accepted: %s" % (name, str(status)[:500]))
        programs.append(name)
        for c in use:
            # per-function passes are validated compositionally (calls are events); configurations with inlining
            # enter calls on both sides up to the depth bound
            mode = "enter" if c[3] == "1" else "events"
            jobs.append((name, os.path.join(od, "mir_unopt.json"), os.path.join(od, "mir_opt_%s.json" % c), mode, bounds, only_fn))
            if name != "repo-tests" and (c in ("11111", "00000") or tier != "quick"):
                jobs.append((name, os.path.join(od, "mir_unopt.json"), os.path.join(od, "mir_opt_%s.json" % c), mode + "+divtraps", bounds, only_fn))
    # programs behind listed known findings: every difference found in them is attributed to that finding
    from vlib.common import load_known as _lk
    known_progs = {}
    for k_ in _lk("C02"):
        if k_.get("program") and not only_prog:
            path = os.path.join(VERIF, k_["program"])
            kname = "known_" + os.path.splitext(os.path.basename(path))[0]
            od = os.path.join(outroot, kname)
            p = drv.call(["dump", od, "11111,00100"] + ["%s=%s" % (os.path.splitext(os.path.basename(path))[0], path)], check=False, timeout=600)
            if '"status":"ok"' in p.stdout:
                known_progs[kname] = k_
                for c in ("11111", "00100"):
                    jobs.append((kname, os.path.join(od, "mir_unopt.json"), os.path.join(od, "mir_opt_%s.json" % c), "enter", bounds, None))
    known_hits = {}
    stats = {"functions_compared": 0, "equal": 0, "different": 0, "skipped": 0, "inconclusive": 0, "error": 0, "pairs": 0, "queries": 0,
             "bound_ref_paths": 0, "bound_new_paths": 0, "fully_covered_functions": 0}
    skipped_why = {}
    from vlib.common import load_known
    # known findings of the division-trap pass are keyed by the function in which the unoptimized run traps
    f29 = [k for k in load_known("C02") if k.get("division_trap_functions")]
    f29_sites = []
    t0 = time.time()
    with concurrent.futures.ProcessPoolExecutor(max_workers=min(14, max(1, len(_chunked(jobs)) if jobs and len(jobs[0]) == 6 else len(jobs)))) as ex:
        for (prog, fa, fb, mode, out, dropped) in ex.map(_compare_one, _chunked(jobs)):
            if prog in known_progs:
                diff = sorted(r["fn"].split("$")[-1] for r in out if r["status"] == "different")
                if diff:
                    known_hits.setdefault(known_progs[prog]["id"], set()).update(diff)
                continue
            for r in out:
                if r.get("divtraps"):
                    stats["division_trap_pass_functions"] = stats.get("division_trap_pass_functions", 0) + 1
                    if r["status"] == "different" and r.get("ref_outcome") == "trap" and "division" in (r.get("ref_why") or ""):
                        # the unoptimized run traps on a division; the optimized run behaves differently before / instead
                        kn_ = [k for k in f29 if r["fn"].split("$")[-1] in k["division_trap_functions"]]
                        if kn_:
                            f29_sites.append((kn_[0]["id"], kn_[0]["short"], "%s/%s" % (prog, r["fn"].split("$")[-1])))
                            continue
                        res.violation("%s: function %s: the unoptimized run traps on a division, the run after %s %s"
                                      % (prog, r["fn"], fb, "does not trap (%s)" % r.get("new_outcome") if r.get("new_outcome") != "trap" else "traps after a different sequence of calls"),
                                      {"program": prog, "function": r["fn"], "before": fa, "after": fb, **{k: v for k, v in r.items() if k != "fn"}})
                        continue
                    if r["status"] != "different":
                        continue      # everything else was judged by the first pass
                stats["functions_compared"] += 1
                stats[r["status"]] = stats.get(r["status"], 0) + 1
                stats["pairs"] += r.get("pairs", 0)
                stats["queries"] += r.get("queries", 0)
                stats["bound_ref_paths"] += r.get("bound_ref", 0)
                stats["bound_new_paths"] += r.get("bound_new", 0)
                if r["status"] == "equal" and not r.get("bound_ref") and not r.get("bound_new"):
                    stats["fully_covered_functions"] += 1
                if r["status"] == "different":
                    res.violation("%s: function %s differs between %s and %s: %s" % (prog, r["fn"], fa, fb, r.get("why")),
                                  {"program": prog, "function": r["fn"], "before": fa, "after": fb, "mode": mode, **{k: v for k, v in r.items() if k != "fn"}})
                elif r["status"] in ("skipped",):
                    skipped_why[r["why"][:80]] = skipped_why.get(r["why"][:80], 0) + 1
                elif r["status"] == "error":
                    res.inconc("internal error comparing %s/%s (%s): %s" % (prog, r["fn"], fb, r["why"][-300:]))
                elif r["status"] == "inconclusive":
                    res.inconc("%s/%s (%s): %s" % (prog, r["fn"], fb, r.get("why")))
                if stats["functions_compared"] % 97 == 0:
                    res.sample({"program": prog, "function": r["fn"], "after": fb, "status": r["status"], "paths_ref": r.get("paths_ref"), "pairs": r.get("pairs")})
    for kid, fns_ in sorted(known_hits.items()):
        k_ = [x for x in known_progs.values() if x["id"] == kid][0]
        res.known("%s %s (differs in: %s)" % (kid, k_["short"], ", ".join(sorted(fns_))))
    stats["known_finding_programs"] = {k: sorted(v) for k, v in known_hits.items()}
    for kid in sorted(set(x[0] for x in f29_sites)):
        sites = sorted(set(x[2] for x in f29_sites if x[0] == kid))
        res.known("%s %s (%s)" % (kid, [x[1] for x in f29_sites if x[0] == kid][0], ", ".join(sites[:4])))
    if f29_sites:
        stats["division_trap_known_sites"] = sorted(set(x[2] for x in f29_sites))
    stats["wall_s"] = round(time.time() - t0, 1)
    stats["skipped_reasons"] = skipped_why
    return {"programs": len(programs), "corpus": programs, "configurations": cfgs, "et": stats, "bounds": bounds}


WHOLE_QUICK = {"forks": 6, "steps": 8000, "paths": 400, "depth": 10, "seconds": 60}
WHOLE_THOROUGH = {"forks": 12, "steps": 40000, "paths": 3000, "depth": 16, "seconds": 600}


def run_pipeline(res, tier, sc, drv, only_prog=None):
    """C01 (stages that have an executable meaning in MIR/LIR): every lowering stage the real compiler ran is
    validated against the previous one; the emitted binary module is validated with wasmparser."""
    outroot = os.path.join(sc.root, "et")
    fb = QUICK_BOUNDS if tier == "quick" else THOROUGH_BOUNDS
    wb = WHOLE_QUICK if tier == "quick" else WHOLE_THOROUGH
    jobs = []
    programs = []
    invalid = []
    for name, mods in corpus(sc, tier):
        if only_prog and only_prog != name:
            continue
        if tier == "quick" and name == "repo-tests" and not only_prog:
            continue
        od = os.path.join(outroot, name)
        p = drv.call(["dump", od, "11111,00000"] + mods, check=False, timeout=600)
        try:
            status = json.loads(p.stdout.strip().split("\n")[-1])
        except Exception:
            raise Inconclusive("driver dump failed for %s: %s" % (name, (p.stdout + p.stderr)[-500:]))
        if status.get("status") == "panic":
            res.violation("the compiler panics on corpus program %s" % name, {"program": mods})
            continue
        if status.get("status") != "ok":
            raise Inconclusive("corpus program %s is not accepted: %s" % (name, str(status)[:500]))
        programs.append(name)
        for vf in ("wasm_validation.json", "wasm_validation_00000.json"):
            v = json.load(open(os.path.join(od, vf)))
            if v.get("error"):
                invalid.append(name)
                res.violation("emitted WebAssembly module of %s is invalid (%s): %s" % (name, vf, v["error"]),
                              {"program": name, "modules": mods, "wasmparser": v["error"]})
        J = lambda f: os.path.join(od, f)
        # source-level sum values (HIR EnumInit / ConditionalDestructure) vs the representation and decision
        # chains the compiler chose (generics specialisation + enum layout + match lowering)
        jobs.append((name, J("hir.json"), J("mir_s1_specialized.json"), "whole+loose", wb, None))
        jobs.append((name, J("mir_s1_specialized.json"), J("mir_s2_deduplicated.json"), "whole+anytype", wb, None))
        jobs.append((name, J("mir_s2_deduplicated.json"), J("mir_s3_const_param_eliminated.json"), "whole", wb, None))
        # a self tail call becomes a loop iteration: calls are entered on both sides (recursion depth = iterations)
        jobs.append((name, J("mir_s3_const_param_eliminated.json"), J("mir_s4_tail_rec_rewritten.json"), "enter", dict(fb, depth=10, forks=6), None))
        jobs.append((name, J("mir_s3_const_param_eliminated.json"), J("mir_s4_tail_rec_rewritten.json"), "whole", wb, None))
        jobs.append((name, J("mir_opt_11111.json"), J("lir.json"), "events", fb, None))
        jobs.append((name, J("mir_opt_00000.json"), J("lir_00000.json"), "events", fb, None))
        jobs.append((name, J("lir.json"), J("all.wat"), "lirwat", fb, None))
        jobs.append((name, J("lir_00000.json"), J("all_00000.wat"), "lirwat", fb, None))
    stats = {"functions_compared": 0, "equal": 0, "different": 0, "skipped": 0, "inconclusive": 0, "error": 0, "pairs": 0, "queries": 0,
             "bound_ref_paths": 0, "bound_new_paths": 0, "fully_covered_functions": 0, "per_stage": {}}
    skipped_why = {}
    f5 = []
    t0 = time.time()
    with concurrent.futures.ProcessPoolExecutor(max_workers=min(14, max(1, len(_chunked(jobs)) if jobs and len(jobs[0]) == 6 else len(jobs)))) as ex:
        for (prog, fa, fb_, mode, out, dropped) in ex.map(_compare_one, _chunked(jobs)):
            stage = "%s -> %s (%s)" % (fa.replace(".json", ""), fb_.replace(".json", ""), mode)
            ps = stats["per_stage"].setdefault(stage, {"functions": 0, "equal": 0, "bounded_paths": 0})
            for r in out:
                stats["functions_compared"] += 1
                ps["functions"] += 1
                stats[r["status"]] = stats.get(r["status"], 0) + 1
                stats["pairs"] += r.get("pairs", 0)
                stats["queries"] += r.get("queries", 0)
                stats["bound_ref_paths"] += r.get("bound_ref", 0)
                stats["bound_new_paths"] += r.get("bound_new", 0)
                ps["bounded_paths"] += r.get("bound_ref", 0) + r.get("bound_new", 0)
                if r.get("vec_i31_boxing"):
                    stats["vec_i31_boxing_sites"] = stats.get("vec_i31_boxing_sites", 0) + r["vec_i31_boxing"]
                    f5.append({"program": prog, "function": r["fn"], "witness": r.get("boxing_witness")})
                if r["status"] == "equal":
                    ps["equal"] += 1
                    if not r.get("bound_ref") and not r.get("bound_new"):
                        stats["fully_covered_functions"] += 1
                if r["status"] == "different":
                    res.violation("%s: function %s differs between %s and %s: %s" % (prog, r["fn"], fa, fb_, r.get("why")),
                                  {"program": prog, "function": r["fn"], "before": fa, "after": fb_, "mode": mode, **{k: v for k, v in r.items() if k != "fn"}})
                elif r["status"] == "skipped":
                    skipped_why[r["why"][:80]] = skipped_why.get(r["why"][:80], 0) + 1
                elif r["status"] == "error":
                    res.inconc("internal error comparing %s/%s (%s): %s" % (prog, r["fn"], fb_, r["why"][-300:]))
                elif r["status"] == "inconclusive":
                    res.inconc("%s/%s (%s): %s" % (prog, r["fn"], fb_, r.get("why")))
                if stats["functions_compared"] % 53 == 0:
                    res.sample({"program": prog, "function": r["fn"], "stage": stage, "status": r["status"], "paths_ref": r.get("paths_ref"), "pairs": r.get("pairs")})
    stats["wall_s"] = round(time.time() - t0, 1)
    stats["skipped_reasons"] = skipped_why
    if f5:
        from vlib.common import load_known
        if any(k.get("id") == "F5" for k in load_known("C01")):
            res.known("F5 Vec<int> elements are boxed with ref.i31: values outside [-2^30, 2^30) change under WebAssembly (%d call sites in the corpus, e.g. %s in %s)"
                      % (len(f5), f5[0]["function"], f5[0]["program"]))
        else:
            for x in f5[:5]:
                res.violation("Vec<int> element is truncated to 31 bits in %s (%s)" % (x["function"], x["program"]), x)
        stats["vec_i31_boxing_examples"] = f5[:3]
    return {"programs": len(programs), "corpus": programs, "et": stats, "bounds": {"function": fb, "whole_program": wb},
            "wasm_modules_validated": len(programs) - len(invalid), "disagreements_checked": stats["pairs"]}


def ts_syntax_error(path):
    """None when node parses the emitted TypeScript after its type annotations are erased (vlib/ts2js.py), else the
    first lines of node's complaint"""
    import subprocess
    from vlib import ts2js
    js = path + ".check.js"
    open(js, "w").write(ts2js.strip(open(path).read()))
    p = subprocess.run(["node", "--check", js], capture_output=True, text=True, timeout=120)
    if p.returncode == 0:
        return None
    lines = [l for l in p.stderr.split("\n") if l.strip()]
    return " | ".join(lines[1:5])[:300]


def run_module_validity(res, tier, sc, drv):
    """C03: the real compiler must not crash on an accepted corpus program and the binary module it emits must be
    valid (wasmparser, all proposals), both for the configuration users get and for the unoptimized pipeline."""
    outroot = os.path.join(sc.root, "et")
    checked = []
    for name, mods in corpus(sc, tier):
        if tier == "quick" and name == "repo-tests":
            cfgs = "11111"
        else:
            cfgs = "11111,00000"
        od = os.path.join(outroot, name)
        p = drv.call(["dump", od, cfgs] + mods, check=False, timeout=900)
        try:
            status = json.loads(p.stdout.strip().split("\n")[-1])
        except Exception:
            raise Inconclusive("driver dump failed for %s: %s" % (name, (p.stdout + p.stderr)[-500:]))
        if status.get("status") == "panic":
            res.violation("the compiler panics on the accepted program %s" % name, {"program": mods})
            continue
        if status.get("status") != "ok":
            raise Inconclusive("corpus program %s is not accepted: %s" % (name, str(status)[:500]))
        for tf in ["all.ts"] + (["all_00000.ts"] if "00000" in cfgs else []):
            err = ts_syntax_error(os.path.join(od, tf))
            checked.append({"program": name, "file": tf, "typescript_parses": err is None})
            if err is not None:
                res.violation("the TypeScript emitted for %s (%s) is not syntactically valid: %s" % (name, tf, err),
                              {"program": name, "modules": mods, "file": tf, "node": err})
        for vf in ["wasm_validation.json"] + (["wasm_validation_00000.json"] if "00000" in cfgs else []):
            v = json.load(open(os.path.join(od, vf)))
            checked.append({"program": name, "file": vf, "valid": not v.get("error")})
            if v.get("error"):
                res.violation("emitted WebAssembly module of %s is invalid (%s): %s" % (name, vf, v["error"]),
                              {"program": name, "modules": mods, "wasmparser": v["error"], "defined_function_index": v.get("defined_function_index")})
    # programs behind listed known findings: reported as KNOWN-FINDING while they still fail, silently fine once repaired
    from vlib.common import load_known
    known = {k.get("program"): k for k in load_known("C03") if k.get("program")}
    for rel, k in known.items():
        path = os.path.join(VERIF, rel)
        name = os.path.splitext(os.path.basename(path))[0]
        if k.get("ts_syntax"):
            od = os.path.join(outroot, "known_" + name)
            p = drv.call(["dump", od, "11111,00000", "%s=%s" % (name, path)], check=False, timeout=300)
            errs = [e for e in (ts_syntax_error(os.path.join(od, tf)) for tf in ("all.ts", "all_00000.ts") if os.path.exists(os.path.join(od, tf))) if e]
            checked.append({"program": rel, "typescript_parses": not errs, "known_finding": k.get("id")})
            if errs:
                res.known("%s %s" % (k.get("id"), k.get("short")))
            continue
        p = drv.call(["compile", os.path.join(outroot, "known_" + name), name, "%s=%s" % (name, path)], check=False, timeout=300)
        st_ = ""
        try:
            st_ = json.loads(p.stdout.strip().split("\n")[-1]).get("status")
        except Exception:
            st_ = "driver-error"
        checked.append({"program": rel, "status": st_, "known_finding": k.get("id")})
        if st_ == "panic":
            res.known("%s %s" % (k.get("id"), k.get("short") or ("the compiler panics on the accepted program %s (Map.union of std/map.sam)" % rel)))
    return {"modules_validated": checked}


# expressions that exercise type-argument inference; some are under-constrained (the checker must say so), none may
# reach the back end with a placeholder type
INFERENCE_PRELUDE = """class Inf {
  function <A> applyAny(f: (A) -> int): int = 0
  function <A> constAny(): int = 1
  function <A> pick(a: A, b: A): A = a
  function <A, B> mapOpt(o: Option<A>, f: (A) -> B): Option<B> = match o { Some(x) -> Option.Some(f(x)), None -> Option.None() }
  function <A> len(o: Option<A>): int = match o { Some(_) -> 1, None -> 0 }
}
"""
INFERENCE_EXPRS = {
    "uninferable_lambda_parameter": "Inf.applyAny((x) -> 1)",
    "uninferable_lambda_parameter_used": "Inf.applyAny((x) -> x + 1)",
    "uninferable_through_id": "Helper.id(Inf.applyAny((x) -> 1))",
    "uninferable_type_argument": "Inf.constAny()",
    "uninferable_none": "Inf.len(Option.None())",
    "uninferable_none_through_id": "Inf.len(Helper.id(Option.None()))",
    "explicit_type_argument": "Inf.constAny<int>()",
    "bounded_function_value_under_hint": "{ let g: (Meter) -> int = Cmp.key; g(Meter.init(1)) }",
    "bounded_function_value_bad_hint": "{ let g: (Plain) -> int = Cmp.key; g(Plain.init(1)) }",
    "field_on_class_object": "Plain.v",
    "annotated_lambda": "Inf.applyAny((x: int) -> x + 1)",
    "none_with_peer": "Inf.len(Inf.pick(Option.None(), Option.Some(1)))",
    "lambda_from_first_argument": "Inf.len(Inf.mapOpt(Option.Some(1), (x) -> x + 1))",
    "lambda_from_uninferable_first_argument": "Inf.len(Inf.mapOpt(Option.None(), (x) -> 1))",
    "nested_generic_lambda": "Inf.len(Inf.mapOpt(Inf.mapOpt(Option.Some(1), (x) -> Cell.of(x)), (c) -> c.content))",
}


def run_generated_accept_set(res, tier, sc, drv):
    """C03 over generated programs: every program of the generated reject corpus of C06 (well-typed contexts, twins,
    single-fault programs) and every inference-stress expression in every context is compiled by the real
    compile_sources.  Whatever the checker answers, the compiler must not panic, and a program it accepts must yield a
    valid module.  (Whether a fault is rejected is C06's business, not this component's.)"""
    from checks import c06
    progs = [(n, p_, None) for n, p_, _ in c06.generated_rejects() + c06.declaration_rejects()]
    progs += [(n, p_, c06.MOD_LIB) for n, p_, _ in c06.module_rejects()]
    for cn, ctx in c06.GEN_CONTEXTS.items():
        for en, e in INFERENCE_EXPRS.items():
            progs.append(("%s@%s" % (en, cn), c06.GEN_PRELUDE + INFERENCE_PRELUDE + ctx.replace("HOLE", e) + "\n", None))
    d = os.path.join(sc.root, "c03gen")
    os.makedirs(d, exist_ok=True)
    counts = {"programs": 0, "accepted": 0, "rejected": 0, "panics": 0, "invalid_modules": 0}
    for name, prog, lib in progs:
        path = os.path.join(d, "L.sam")
        open(path, "w").write(prog)
        mods = ["L=" + path]
        if lib is not None:
            open(os.path.join(d, "Lib.sam"), "w").write(lib)
            mods.append("Lib=" + os.path.join(d, "Lib.sam"))
        p = drv.call(["compile", os.path.join(d, "out"), "L"] + mods, check=False, timeout=300)
        try:
            st_ = json.loads(p.stdout.strip().split("\n")[-1])
        except Exception:
            res.inconc("generated accept set: the driver gave no verdict for %s: %s" % (name, (p.stdout + p.stderr)[-300:]))
            continue
        counts["programs"] += 1
        if st_.get("status") == "panic":
            counts["panics"] += 1
            res.violation("the compiler panics on the generated program %s (neither accepted nor rejected with a diagnostic)" % name,
                          {"property": "C03", "program": prog, "library_module": lib, "generated": name, "stderr": p.stderr[-600:]})
        elif st_.get("status") == "ok":
            counts["accepted"] += 1
            terr = ts_syntax_error(os.path.join(d, "out", "L.ts"))
            if terr is not None:
                counts["invalid_typescript"] = counts.get("invalid_typescript", 0) + 1
                res.violation("the TypeScript emitted for the accepted generated program %s is not syntactically valid: %s" % (name, terr),
                              {"property": "C03", "program": prog, "library_module": lib, "generated": name, "node": terr})
            if st_.get("wasm_validation_error"):
                counts["invalid_modules"] += 1
                res.violation("the module emitted for the accepted generated program %s is invalid: %s" % (name, st_["wasm_validation_error"]),
                              {"property": "C03", "program": prog, "library_module": lib, "generated": name, "wasmparser": st_["wasm_validation_error"]})
        else:
            counts["rejected"] += 1
    if counts["accepted"] < len(c06.GEN_CONTEXTS):
        res.inconc("generated accept set: only %d programs were accepted; the contexts themselves no longer compile" % counts["accepted"])
    return {"generated_accept_set": counts}


def run_runtime_traps(res, tier, sc, drv):
    """C03, hand-written runtime library (libsam.wat as embedded in an emitted module, E-W): the string helpers a
    program can reach with ANY string must not end in an engine-level fault: `Str.toInt` on every string of <= 3 bytes
    (all contents: the spec leaves the *value* on invalid input to the implementation, not a crash), `Str.fromInt`
    on every i32, `Str.concat` / `Str.eq` on all strings of length <= 2."""
    import z3
    from vlib import wat
    from vlib.irsym import Int, I31, World, BV
    od = os.path.join(sc.root, "et", "c03rt")
    prog = os.path.join(sc.root, "c03rt.sam")
    open(prog, "w").write('class Main { function main(): unit = { let a = "12"; let b = Str.fromInt(a.toInt()); '
                          'if (a :: b) == b { Process.println(a) } else { Process.println(b) } } }\n')
    p = drv.call(["dump", od, "11111", "RT=" + prog], check=False)
    if '"status":"ok"' not in p.stdout:
        raise Inconclusive("could not compile the runtime probe program: %s" % p.stdout[:300])
    mod = wat.Module(open(os.path.join(od, "all.wat")).read())
    bounds = {"forks": 40, "steps": 20000, "paths": 400, "seconds": 120}
    stats = {"functions": [], "paths": 0, "obligations": 0, "discharged": 0}

    def no_trap(fname, args, pre, what):
        ex = wat.WExec(mod, World(), bounds)
        ex.deadline = time.time() + bounds["seconds"]
        ps = ex.run(fname, args, pre, None)
        if not ps:
            res.inconc("runtime traps: no path through %s (%s)" % (fname, what))
        for p_ in ps:
            stats["paths"] += 1
            if p_.outcome == "return":
                continue
            stats["obligations"] += 1
            if p_.outcome == "bound":
                res.inconc("runtime traps: unrolling bound reached in %s (%s)" % (fname, what))
                continue
            s_ = z3.Solver()
            s_.set("timeout", 60000)
            s_.add(*p_.pc)
            r = s_.check()
            if r == z3.unsat:
                stats["discharged"] += 1
            elif r == z3.sat:
                m = s_.model()
                res.violation("runtime library: %s ends in an engine-level fault (%s: %s) for %s" % (fname, p_.outcome, p_.why, what),
                              {"property": "C03", "function": fname, "case": what, "outcome": p_.outcome, "why": p_.why, "model": str(m)[:400]})
                return
            else:
                res.inconc("runtime traps: solver unknown for %s" % fname)

    def mkstr(tag, n):
        elems = [Int(z3.SignExt(24, z3.BitVec("%s_c%d" % (tag, k), 8))) for k in range(n)]
        return wat.Arr("_Str", elems, key=tag)

    for n in range(4):
        no_trap("__Str$toInt", [mkstr("s", n)], [], "a string of %d arbitrary bytes" % n)
    v = z3.BitVec("v", 32)
    no_trap("__Str$fromInt", [I31(BV(0)), Int(v)], [], "any i32")
    for na in range(3):
        for nb in range(3):
            no_trap("__Str$concat", [mkstr("a", na), mkstr("b", nb)], [], "strings of %d and %d bytes" % (na, nb))
            no_trap("__Str$eq", [mkstr("a", na), mkstr("b", nb)], [], "strings of %d and %d bytes" % (na, nb))
    stats["functions"] = ["__Str$toInt", "__Str$fromInt", "__Str$concat", "__Str$eq"]
    return {"runtime_traps": stats}


TRAP_FILES = ["mir_unopt.json", "mir_opt_11111.json", "lir.json", "lir_00000.json"]


def _trap_one(job):
    """whole-program symbolic execution from the entry points in the `new` role: casts can fail, arithmetic wraps;
    everything is concrete except the results of builtin calls (the `sel` selector, Vec contents)"""
    import z3
    prog, path, bounds = job
    P = irsym.Prog(json.load(open(path)))
    out = {"program": prog, "file": os.path.basename(path), "paths": 0, "outcomes": {}, "illegal_casts": [], "status": "ok"}
    for mn in P.mains:
        w = irsym.World()
        w.is_subtype = P.is_subtype
        w.types = P.types
        ex = irsym.Exec(P, w, "new", True, bounds)
        ex.deadline = time.time() + bounds["seconds"]
        ex.check_indirect_sigs = True
        f = P.fns[mn]
        try:
            paths = ex.run(mn, irsym.mk_args(f, w))
        except irsym.Unsupported as e:
            out["status"] = "unsupported: %s" % e
            continue
        out["paths"] += len(paths)
        s = z3.Solver()
        s.set("timeout", 20000)
        for p in paths:
            key = p.outcome if p.outcome != "trap" else "trap: " + (p.why or "")[:40].split(" to ")[0]
            out["outcomes"][key] = out["outcomes"].get(key, 0) + 1
            if p.outcome == "trap" and (p.why or "").startswith(("illegal cast", "indirect call signature")):
                s.push()
                s.add(*p.pc)
                s.add(*w.axioms)
                r = s.check()
                if r == z3.sat:
                    m = s.model()
                    calls = [t[0] for t in p.trace][-6:]
                    evs = {}
                    for d in m.decls():
                        if d.name().startswith("ev") and ":" in d.name() and len(evs) < 8:
                            evs[d.name()] = str(m[d])
                    out["illegal_casts"].append({"entry": mn, "why": p.why, "last_calls": calls, "event_results": evs,
                                                 "entered": sorted(getattr(p, "entered", ()))[-8:]})
                elif r != z3.unsat:
                    out["status"] = "solver unknown"
                s.pop()
    return out


def run_trap_freedom(res, tier, sc, drv):
    """C03: a well-typed program never fails a cast.  Every corpus program is executed symbolically from its entry
    points on the MIR and LIR the real compiler produced (optimized and unoptimized); a satisfiable path that ends
    in an illegal cast is a violation (division by zero and Process.panic are defined run-time errors, not counted)."""
    outroot = os.path.join(sc.root, "et")
    b = {"forks": 12, "steps": 200000, "paths": 5000, "depth": 40, "seconds": 60 if tier == "quick" else 400}
    jobs = []
    for name, mods in corpus(sc, tier):
        if name == "repo-tests" and tier == "quick":
            continue
        od = os.path.join(outroot, name)
        if not all(os.path.exists(os.path.join(od, f)) for f in TRAP_FILES):
            p = drv.call(["dump", od, "11111,00000"] + mods, check=False, timeout=900)
            if '"status":"ok"' not in p.stdout:
                continue       # reported by run_module_validity
        for f in TRAP_FILES:
            if os.path.exists(os.path.join(od, f)):
                jobs.append((name, os.path.join(od, f), b))
    rows = []
    known_hits = set()
    from vlib.common import load_known
    with concurrent.futures.ProcessPoolExecutor(max_workers=min(14, max(1, len(_chunked(jobs)) if jobs and len(jobs[0]) == 6 else len(jobs)))) as ex:
        for r in ex.map(_trap_one, jobs):
            rows.append({k: v for k, v in r.items() if k != "illegal_casts"})
            if r["status"] != "ok":
                res.inconc("trap freedom %s/%s: %s" % (r["program"], r["file"], r["status"]))
            seen = set()
            for c in r["illegal_casts"]:
                if c["why"] in seen:
                    continue
                seen.add(c["why"])
                if c["why"].startswith("indirect call"):
                    kn = [k for k in load_known("C03") if k.get("trap") == "indirect call signature mismatch" and k.get("program") == r["program"]]
                    if kn:
                        known_hits.add((kn[0]["id"], kn[0]["short"]))
                        continue
                res.violation("%s (%s): a path from %s ends in an %s although the program is well-typed (calls: %s)"
                              % (r["program"], r["file"], c["entry"], c["why"], " > ".join(c["last_calls"])),
                              {"program": r["program"], "file": r["file"], **c,
                               "note": "not replayed: no WebAssembly-GC runtime in the sandbox and the TypeScript back end erases casts"})
    for kid, short in sorted(known_hits):
        res.known("%s %s" % (kid, short))
    return {"trap_freedom": rows}


def _compare_lirts(job):
    """the LIR the compiler produced vs the TypeScript it printed from it (read back by vlib/tsir.py)"""
    from vlib import tsir
    prog, lir_path, ts_path, bounds = job
    js = json.load(open(lir_path))
    L = irsym.Prog(js)
    # the MIR type table of the same configuration says which variants of an enum are unboxed (the LIR table does not)
    mir_path = os.path.join(os.path.dirname(lir_path), "mir_opt_00000.json" if "00000" in os.path.basename(lir_path) else "mir_opt_11111.json")
    wf = {t["name"]: t for t in json.load(open(mir_path))["types"]} if os.path.exists(mir_path) else None
    M = tsir.Module(open(ts_path).read())
    out = []
    fns = []
    skipped = {}
    for n in L.fns:
        if n not in M.fn_lines:
            out.append({"fn": n, "status": "different", "why": "the function is missing from the TypeScript output"})
            continue
        try:
            fns.append(M.function(n))
        except irsym.Unsupported as e:
            skipped[n] = str(e)
    T = irsym.Prog({"ir": "lir", "globals": js["globals"], "types": js["types"], "mains": js["mains"], "functions": fns})
    for n in L.fns:
        if n in skipped:
            out.append({"fn": n, "status": "skipped", "why": "TypeScript not read back: %s" % skipped[n]})
            continue
        if n not in T.fns:
            continue
        t0 = time.time()
        try:
            r = irsym.compare_function(n, L, T, bounds, enter=False, typed=True, js=True, wf_types=wf)
        except irsym.Unsupported as e:
            r = {"status": "skipped", "why": str(e)}
        except irsym.Budget as e:
            r = {"status": "skipped", "why": "budget: %s" % e}
        except Exception as e:  # noqa
            import traceback
            r = {"status": "error", "why": "%r %s" % (e, traceback.format_exc()[-600:])}
        r["fn"] = n
        r["wall_s"] = round(time.time() - t0, 2)
        out.append(r)
    return (prog, os.path.basename(lir_path), os.path.basename(ts_path), out)


def run_lirts(res, tier, sc, drv):
    """C04, TypeScript side: the TypeScript back end is a printer of LIR; what it printed is parsed back and proved
    equivalent to the LIR function by function (JavaScript statement semantics: sequential assignments, while (true) /
    break, erased casts), so that a printer that drops, reorders or mistranslates a statement is seen."""
    outroot = os.path.join(sc.root, "et")
    fb = QUICK_BOUNDS if tier == "quick" else THOROUGH_BOUNDS
    jobs = []
    for name, mods in corpus(sc, tier):
        if tier == "quick" and name == "repo-tests":
            continue
        od = os.path.join(outroot, name)
        if not os.path.exists(os.path.join(od, "all_00000.ts")):
            p = drv.call(["dump", od, "11111,00000"] + mods, check=False, timeout=600)
            if '"status":"ok"' not in p.stdout:
                raise Inconclusive("corpus program %s is not accepted: %s" % (name, p.stdout[:300]))
        jobs.append((name, os.path.join(od, "lir.json"), os.path.join(od, "all.ts"), fb))
        jobs.append((name, os.path.join(od, "lir_00000.json"), os.path.join(od, "all_00000.ts"), fb))
    stats = {"functions_compared": 0, "equal": 0, "different": 0, "skipped": 0, "pairs": 0, "skipped_reasons": {}}
    with concurrent.futures.ProcessPoolExecutor(max_workers=min(14, max(1, len(_chunked(jobs)) if jobs and len(jobs[0]) == 6 else len(jobs)))) as ex:
        for (prog, fa, fb_, out) in ex.map(_compare_lirts, jobs):
            for r in out:
                stats["functions_compared"] += 1
                stats[r["status"]] = stats.get(r["status"], 0) + 1
                stats["pairs"] += r.get("pairs", 0)
                if r["status"] == "different":
                    res.violation("%s: %s: the TypeScript printed for it (%s) does not behave like the LIR it was printed from (%s): %s"
                                  % (prog, r["fn"], fb_, fa, r.get("why")),
                                  {"program": prog, "function": r["fn"], "lir": fa, "ts": fb_, **{k: v for k, v in r.items() if k != "fn"}})
                elif r["status"] == "skipped":
                    k = str(r.get("why"))[:70]
                    stats["skipped_reasons"][k] = stats["skipped_reasons"].get(k, 0) + 1
                elif r["status"] in ("error", "inconclusive"):
                    res.inconc("%s/%s (TypeScript): %s" % (prog, r["fn"], str(r.get("why"))[-300:]))
    if stats["functions_compared"] and stats["equal"] * 2 < stats["functions_compared"]:
        res.inconc("TypeScript read-back: fewer than half of the functions could be compared (%s)" % json.dumps(stats["skipped_reasons"])[:400])
    return {"typescript_functions": stats}


def run_lirwat(res, tier, sc, drv):
    """C04: the TypeScript back end prints the LIR, the WebAssembly back end lowers it: every LIR function is compared
    with the WAT function generated from it (same observables for all arguments within the bounds)."""
    outroot = os.path.join(sc.root, "et")
    fb = QUICK_BOUNDS if tier == "quick" else THOROUGH_BOUNDS
    jobs = []
    programs = []
    for name, mods in corpus(sc, tier):
        if tier == "quick" and name == "repo-tests":
            continue
        od = os.path.join(outroot, name)
        p = drv.call(["dump", od, "11111,00000"] + mods, check=False, timeout=600)
        if '"status":"ok"' not in p.stdout:
            raise Inconclusive("corpus program %s is not accepted: %s" % (name, p.stdout[:300]))
        programs.append(name)
        jobs.append((name, os.path.join(od, "lir.json"), os.path.join(od, "all.wat"), "lirwat", fb, None))
        jobs.append((name, os.path.join(od, "lir_00000.json"), os.path.join(od, "all_00000.wat"), "lirwat", fb, None))
    stats = {"functions_compared": 0, "equal": 0, "different": 0, "skipped": 0, "pairs": 0, "vec_i31_boxing_sites": 0}
    with concurrent.futures.ProcessPoolExecutor(max_workers=min(14, max(1, len(_chunked(jobs)) if jobs and len(jobs[0]) == 6 else len(jobs)))) as ex:
        for (prog, fa, fb_, mode, out, _) in ex.map(_compare_one, _chunked(jobs)):
            for r in out:
                stats["functions_compared"] += 1
                stats[r["status"]] = stats.get(r["status"], 0) + 1
                stats["pairs"] += r.get("pairs", 0)
                stats["vec_i31_boxing_sites"] += r.get("vec_i31_boxing", 0)
                if r["status"] == "different":
                    res.violation("%s: %s behaves differently in the TypeScript (LIR) and WebAssembly back ends: %s" % (prog, r["fn"], r.get("why")),
                                  {"program": prog, "function": r["fn"], "lir": fa, "wat": fb_, **{k: v for k, v in r.items() if k != "fn"}})
                elif r["status"] in ("error", "inconclusive"):
                    res.inconc("%s/%s: %s" % (prog, r["fn"], str(r.get("why"))[-300:]))
    return {"backend_programs": programs, "backend_functions": stats}


def _law_one(job):
    path, lhs, rhs, bounds = job
    P = irsym.Prog(json.load(open(path)))
    out = []
    for a, b in ((lhs, rhs), (rhs, lhs)):
        try:
            r = irsym.compare_function(a, P, P, bounds, enter=True, timeout_s=30, name_b=b, typed=True)
        except irsym.Unsupported as e:
            r = {"status": "skipped", "why": str(e)}
        except irsym.Budget as e:
            r = {"status": "skipped", "why": "budget: %s" % e}
        r["ref"], r["new"] = a, b
        out.append(r)
    return out


def run_laws(res, tier, sc, drv):
    """C01, source -> HIR -> MIR: pairs of functions that are equal by the language's semantics (a pattern is its
    projections, a nested pattern is a nested match, `&&` is an if, ...) must compile to equivalent MIR.  Each pair
    is compared in both directions (either side as the reference)."""
    outroot = os.path.join(sc.root, "et")
    b = {"forks": 14, "steps": 40000, "paths": 1500, "depth": 12, "seconds": 60 if tier == "quick" else 300}
    jobs = []
    for f in sorted(glob.glob(os.path.join(VERIF, "corpus_laws", "*.sam"))):
        name = os.path.splitext(os.path.basename(f))[0]
        od = os.path.join(outroot, "law_" + name)
        p = drv.call(["dump", od, "none", "%s=%s" % (name, f)], check=False, timeout=600)
        if '"status":"panic"' in p.stdout:
            tc = drv.call(["typecheck", "%s=%s" % (name, f)], check=False, timeout=300)
            if '"errors":""' in tc.stdout.replace(" ", ""):
                res.violation("the compiler panics while lowering the accepted law program %s (source -> MIR)" % name, {"program": f})
                continue
        if '"status":"ok"' not in p.stdout:
            raise Inconclusive("law corpus program %s is not accepted: %s" % (name, p.stdout[:400]))
        mir = os.path.join(od, "mir_unopt.json")
        fns = [x["name"] for x in json.load(open(mir))["functions"]]
        lhs = [x for x in fns if x.endswith("Lhs")]
        for l in lhs:
            r = l[:-3] + "Rhs"
            if r not in fns:
                raise Inconclusive("law %s has no right-hand side in the compiled program" % l)
            jobs.append((mir, l, r, b))
    stats = {"laws": len(jobs), "equal": 0, "different": 0, "skipped": 0, "pairs": 0}
    if not jobs:
        if res.violations:
            return {"source_laws": stats}
        raise Inconclusive("no source-level laws found in corpus_laws")
    with concurrent.futures.ProcessPoolExecutor(max_workers=min(14, len(jobs))) as ex:
        for (job, out) in zip(jobs, ex.map(_law_one, jobs)):
            law = job[1].split("$")[-1][:-3]
            for r in out:
                stats["pairs"] += r.get("pairs", 0)
                if r["status"] == "different":
                    stats["different"] += 1
                    res.violation("source-level law `%s` does not hold in the compiled MIR: %s and %s differ (%s)"
                                  % (law, r["ref"], r["new"], r.get("why")),
                                  {"law": law, "program": os.path.basename(os.path.dirname(job[0])), **{k: v for k, v in r.items()}})
                    break
                elif r["status"] in ("skipped", "inconclusive", "error"):
                    stats["skipped"] += 1
                    res.inconc("law %s: %s" % (law, str(r.get("why"))[:300]))
                else:
                    if r.get("bound_ref") or r.get("bound_new"):
                        stats.setdefault("with_bounded_paths", 0)
                        stats["with_bounded_paths"] += 1
            else:
                stats["equal"] += 1
    return {"source_laws": stats}


def run_enum_layout(res, tier, sc, drv):
    """C01 (enum layout choice, mir_generics_specialization.rs): for every enum type of every corpus program the
    representation chosen by the real compiler must be injective - no run-time value may represent two different
    variants.  Values are modelled as an algebraic datatype (i31 with payload | struct instance of a named type);
    each type's value set is unfolded from the dumped type definitions and z3 decides, for all values, whether
    two variants of one enum overlap.  A second obligation per pair covers the TypeScript target, whose only
    discriminators are `typeof` and the tag in slot 0: no value of one variant may pass the test of another."""
    import z3
    outroot = os.path.join(sc.root, "et")
    checked = 0
    collisions = 0
    for name, mods in corpus(sc, tier):
        od = os.path.join(outroot, name)
        f = os.path.join(od, "mir_s1_specialized.json")
        if not os.path.exists(f):
            p = drv.call(["dump", od, "none"] + mods, check=False, timeout=600)
            if not os.path.exists(f):
                raise Inconclusive("no specialised MIR snapshot for %s" % name)
        js = json.load(open(f))
        types = {t["name"]: t for t in js["types"]}
        Val = z3.Datatype("Val")
        Val.declare("i31", ("payload", z3.IntSort()))
        Val.declare("obj", ("ty", z3.StringSort()), ("slot0", z3.IntSort()))
        Val = Val.create()
        v = z3.Const("v", Val)

        def members(tname, depth):
            """formula over v: v is a run-time value of type tname"""
            t = types.get(tname)
            if t is None or t["kind"] == "struct":
                return z3.And(Val.is_obj(v), Val.ty(v) == z3.StringVal(tname))
            if depth <= 0:
                return z3.BoolVal(True)     # over-approximation beyond the unfolding depth (never reached: acyclic)
            return z3.Or(*[variant(tname, k, var, depth) for k, var in enumerate(t["variants"])]) if t["variants"] else z3.BoolVal(False)

        def variant(tname, k, var, depth):
            if var["k"] == "int31":
                return z3.And(Val.is_i31(v), Val.payload(v) == k)
            if var["k"] == "boxed":
                return z3.And(Val.is_obj(v), Val.ty(v) == z3.StringVal("%s$_Sub%d" % (tname, k)), Val.slot0(v) == 2 * k + 1)
            return members(var["t"], depth - 1)

        def ts_test(k, var):
            """the test the emitted TypeScript performs when a match arm selects variant k: objects are arrays, the
            only discriminators are `typeof v === 'object'` and the tag in slot 0 (lir.rs IsPointer pretty-printer)"""
            if var["k"] == "int31":
                return z3.And(Val.is_i31(v), Val.payload(v) == k)
            if var["k"] == "boxed":
                return z3.And(Val.is_obj(v), Val.slot0(v) == 2 * k + 1)
            return Val.is_obj(v)

        for tname, t in types.items():
            if t["kind"] != "enum" or len(t["variants"]) < 2:
                continue
            checked += 1
            s = z3.Solver()
            s.set("timeout", 20000)
            pairs = []
            n = len(t["variants"])
            for j in range(n):
                for k in range(j + 1, n):
                    pairs.append(z3.And(variant(tname, j, t["variants"][j], len(types)), variant(tname, k, t["variants"][k], len(types))))
                    # TypeScript target: a value of variant j must not pass the test of variant k (match arms may come
                    # in any order), and the other way round
                    pairs.append(z3.And(variant(tname, j, t["variants"][j], len(types)), ts_test(k, t["variants"][k])))
                    pairs.append(z3.And(variant(tname, k, t["variants"][k], len(types)), ts_test(j, t["variants"][j])))
            s.add(z3.Or(*pairs))
            r = s.check()
            if r == z3.sat:
                collisions += 1
                m = s.model()
                res.violation("%s: enum %s has two variants that the emitted code cannot tell apart at the run-time value %s" % (name, tname, m.eval(v, model_completion=True)),
                              {"program": name, "enum": tname, "variants": t["variants"], "shared_value": str(m.eval(v, model_completion=True))})
            elif r != z3.unsat:
                res.inconc("enum layout query for %s/%s: solver unknown" % (name, tname))
    return {"enum_layouts_checked": checked, "enum_layout_collisions": collisions}
