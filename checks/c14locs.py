"""C14, the parser's assembly of source ranges (gate, not a solver verdict).

The scanners' position bookkeeping and the Location algebra are decided by Kani; how the ~60 productions of the
recursive-descent parser combine token locations into node ranges cannot be encoded.  This component runs the real
lexer + parser (driver command `loctree`, which prints every range the syntax tree carries, nested as the syntax
nests) on the corpus programs under several LAYOUTS of the same token sequence and checks what C14 states:

  I1  every range lies inside the document and starts no later than it ends;
  I2  a node's range encloses the ranges of its sub-parts;
  I3  the range of a name covers exactly the characters that spell the name;
  I4  sibling constructs do not overlap;
  I5  a range starts at the first character of a token and ends at the last character of a token
      (it never starts or ends in layout);
  I6  the range of every node is the same TOKEN span under every layout (one line, one token per line, CRLF + tabs,
      block comments between tokens, blank lines): ranges depend on the tokens, not on what separates them.

The tokenizer below is only used to re-lay-out a program and to name token boundaries; I5 on the original layout
validates it against the real lexer on every run."""
import json
import os
import re

from vlib.common import Inconclusive, Scratch, VERIF

TOKEN = re.compile(r"""
    (?P<ws>[ \t\r\n]+)
  | (?P<lc>//[^\n]*)
  | (?P<bc>/\*.*?\*/)
  | (?P<str>"(?:[^"\\\n]|\\.)*")
  | (?P<id>[A-Za-z_][A-Za-z0-9_]*)
  | (?P<int>[0-9]+)
  | (?P<op>\.\.\.|->|::|==|!=|<=|>=|&&|\|\||[-+*/%<>=!(){}\[\],.:;?|_])
""", re.X | re.S)


def tokenize(text):
    """[(kind, text, start offset)] without layout; comments are kept apart (they are not tokens of the grammar)"""
    out, comments, i = [], [], 0
    while i < len(text):
        m = TOKEN.match(text, i)
        if not m:
            raise Inconclusive("syntax ranges: the tokenizer of the gate does not know %r" % text[i:i + 20])
        k = m.lastgroup
        if k in ("lc", "bc"):
            comments.append((k, m.group(), i))
        elif k != "ws":
            out.append((k, m.group(), i))
        i = m.end()
    return out, comments


def positions(text):
    """offset -> (line, column)"""
    pos, line, col = [], 0, 0
    for ch in text:
        pos.append((line, col))
        if ch == "\n":
            line, col = line + 1, 0
        else:
            col += 1
    pos.append((line, col))
    return pos


LAYOUTS = ["original", "one_line", "token_per_line", "crlf_tabs", "block_comments", "blank_lines", "mixed"]


def layout(tokens, how, seed=0):
    """the same token sequence with other separators"""
    import random
    rnd = random.Random(seed)
    seps = {
        "one_line": lambda i: " ",
        "token_per_line": lambda i: "\n",
        "crlf_tabs": lambda i: ("\r\n\t", " \t ", "\r\n", "\t")[i % 4],
        "block_comments": lambda i: (" /* c */ ", "\n/* a\n b */\n", " ", " /**/ ", "\n// line\n")[i % 5],
        "blank_lines": lambda i: ("\n\n\n   ", " ", "\n \n")[i % 3],
        "mixed": lambda i: rnd.choice([" ", "\n", "\r\n  ", "\t", "  /* x */  ", "\n\n", "\n// c\n      "]),
    }[how]
    parts = []
    for i, (k, t, _) in enumerate(tokens):
        parts.append(t)
        if t == "-" and i + 1 < len(tokens) and tokens[i + 1][0] == "int":
            # `-` and 2147483648 are merged by the lexer only when no comment stands between them
            parts.append(" " if how != "token_per_line" else "\n")
            continue
        parts.append(seps(i))
    return "".join(parts)


def _walk(node, path, visit):
    visit(node, path)
    for i, c in enumerate(node["c"]):
        _walk(c, path + (i,), visit)


def _le(a, b):
    return a[0] < b[0] or (a[0] == b[0] and a[1] <= b[1])


def check_tree(text, tree, label, report):
    """I1-I5 on one parse; returns {path: (kind, first token index, last token index)}"""
    toks, _ = tokenize(text)
    pos = positions(text)
    starts = {pos[o]: i for i, (_, t, o) in enumerate(toks)}
    ends = {pos[o + len(t)]: i for i, (_, t, o) in enumerate(toks)}
    last = pos[len(text)]
    lines = text.split("\n")
    spans = {}

    def visit(n, path):
        sl, sc, el, ec = n["l"]
        s, e = (sl, sc), (el, ec)
        where = "%s %s at %d:%d-%d:%d" % (n["k"], n.get("n") or "", sl, sc, el, ec)
        if min(sl, sc, el, ec) < 0 or not _le(s, e) or not _le(e, last) or sl >= len(lines) or sc > len(lines[sl]) or el >= len(lines) or ec > len(lines[el]):
            report("I1 range outside the document or inverted", label, where)
            return
        if n["k"] != "module":
            if s not in starts or e not in ends:
                report("I5 range does not start / end on a token boundary", label, where)
            else:
                spans[path] = (n["k"], starts[s], ends[e])
        if n.get("n") is not None and n["k"] != "literal":
            got = lines[sl][sc:ec] if sl == el else None
            if got != n["n"]:
                report("I3 the range of a name does not cover exactly the name", label, where + " covers %r" % (got,))
        kids = n["c"]
        for c in kids:
            cs, ce = (c["l"][0], c["l"][1]), (c["l"][2], c["l"][3])
            if not (_le(s, cs) and _le(ce, e)):
                report("I2 a node's range does not enclose a sub-part", label, where + " does not enclose %s at %s" % (c["k"], c["l"]))
        for i in range(len(kids)):
            for j in range(i + 1, len(kids)):
                a, b = kids[i]["l"], kids[j]["l"]
                if not (_le((a[2], a[3]), (b[0], b[1])) or _le((b[2], b[3]), (a[0], a[1]))):
                    report("I4 sibling constructs overlap", label, where + ": %s at %s and %s at %s" % (kids[i]["k"], a, kids[j]["k"], b))

    _walk(tree, (), visit)
    return spans


IDENT = re.compile(r"[A-Za-z_][A-Za-z0-9_]*$")


def check_queries(text, tree, rows, label, report, stats):
    """C14 for what the language services report (hover, go-to-definition, find-references, folding ranges), queried at
    EVERY position of the document through the public API:
      Q1  a reported range is a range of the syntax tree (so I1-I6 hold for it);
      Q2  the hover range contains the queried position and is the innermost such range: no node strictly inside it
          contains the position (half-open, so that the position just behind a name still belongs to the name);
      Q3  a reference is either the range of the definition or covers exactly an identifier, and the identifiers of one
          answer are spelled alike (a reference to `Box` in `Box<int>` covers `Box`)."""
    nodes = []
    _walk(tree, (), lambda n, p: nodes.append(n))
    by_range = {}
    for n in nodes:
        by_range.setdefault(tuple(n["l"]), []).append(n)
    lines = text.split("\n")

    def txt(a):
        return lines[a[0]][a[1]:a[3]] if a[0] == a[2] and a[0] < len(lines) else None

    for r in rows:
        if "p" not in r:
            for f in r.get("folding", []):
                stats["folding_ranges"] += 1
                if tuple(f) not in by_range:
                    report("Q1 a folding range is not a range of the syntax tree", label, "folding range at %s" % f)
            continue
        p = tuple(r["p"])
        h = r["hover"]
        if h is not None:
            stats["hovers"] += 1
            s, e = (h[0], h[1]), (h[2], h[3])
            if tuple(h) not in by_range:
                report("Q1 the hover range is not a range of the syntax tree", label, "hover at %d:%d reports %s (%r)" % (p[0], p[1], h, txt(h)))
            elif not (s <= p <= e):
                report("Q2 the hover range does not contain the queried position", label, "hover at %d:%d reports %s" % (p[0], p[1], h))
            else:
                for n in nodes:
                    ns, ne = (n["l"][0], n["l"][1]), (n["l"][2], n["l"][3])
                    if s <= ns and ne <= e and (ns, ne) != (s, e) and ns <= p < ne and n["k"] != "module":
                        report("Q2 the hover range is not the innermost range at the position", label,
                               "hover %s reports %s (%r) although %s at %s (%r) contains the position" % (by_range[tuple(h)][0]["k"], h, txt(h), n["k"], n["l"], txt(n["l"])))
                        break
        d = r["def"]
        if d is not None and d["same"]:
            stats["definitions"] += 1
            if tuple(d["l"]) not in by_range:
                report("Q1 a definition range is not a range of the syntax tree", label, "definition from %d:%d at %s" % (p[0], p[1], d["l"]))
        names = set()
        for ref in r["refs"]:
            if not ref["same"]:
                continue
            stats["references"] += 1
            a = ref["l"]
            if tuple(a) not in by_range:
                report("Q1 a reference range is not a range of the syntax tree", label, "reference from %d:%d at %s" % (p[0], p[1], a))
                continue
            if d is not None and d["same"] and a == d["l"]:
                continue
            t = txt(a)
            if t is None or not IDENT.match(t):
                report("Q3 a reference does not cover exactly a name", label, "%s at %s covers %r" % (by_range[tuple(a)][0]["k"], a, t))
            else:
                names.add(t)
        if len(names - {"this"}) > 1:
            report("Q3 the references of one answer spell different names", label, "references from %d:%d: %s" % (p[0], p[1], sorted(names)))


def programs():
    out = []
    for d in ("corpus_syntax", "corpus", "corpus_laws", "corpus_spec"):
        for f in sorted(os.listdir(os.path.join(VERIF, d))):
            if f.endswith(".sam"):
                out.append((d + "/" + f, os.path.join(VERIF, d, f)))
    return out


def repo_programs(sc):
    out = []
    for d in ("tests", "std"):
        p = os.path.join(sc.w, d)
        if os.path.isdir(p):
            for f in sorted(os.listdir(p)):
                if f.endswith(".sam"):
                    out.append((d + "/" + f, os.path.join(p, f)))
    return out


def run(res, tier):
    from vlib import ws
    stats = {"programs": 0, "parses": 0, "nodes": 0, "names": 0, "layouts": LAYOUTS, "skipped_non_ascii": 0, "violations": 0,
             "programs_queried": 0, "positions_queried": 0, "hovers": 0, "definitions": 0, "references": 0, "folding_ranges": 0}
    seen = set()

    def report(kind, label, detail):
        stats["violations"] += 1
        key = (kind, detail.split(" at ")[0])
        if key in seen or len(seen) > 25:
            return
        seen.add(key)
        res.violation("syntax range (%s): %s in %s" % (kind, detail, label), {"property": "C14", "invariant": kind, "where": label, "detail": detail})

    with Scratch(os.environ.get("VERIF_SLOT", "ws")) as sc:
        ws.inject(sc)
        drv = ws.Driver(ws.build_driver(sc))
        progs = programs() + repo_programs(sc)
        for name, path in progs:
            text = open(path).read()
            if any(ord(c) > 127 for c in text):
                stats["skipped_non_ascii"] += 1
                continue
            toks, _ = tokenize(text)
            stats["programs"] += 1
            ref = None
            for how in LAYOUTS:
                t = text if how == "original" else layout(toks, how, seed=len(toks))
                p = os.path.join(sc.root, "c14layout.sam")
                open(p, "w", newline="").write(t)
                pr = drv.call(["loctree", p], check=False, timeout=120)
                try:
                    o = json.loads(pr.stdout.strip().split("\n")[-1])
                except Exception:
                    res.inconc("syntax ranges: no tree for %s under layout %s: %s" % (name, how, (pr.stdout + pr.stderr)[-200:]))
                    continue
                if o["errors"]:
                    if how == "original":
                        break  # not a syntactically valid module (the property speaks of valid ones)
                    res.inconc("syntax ranges: %s parses, its re-layout %s does not (%d errors)" % (name, how, o["errors"]))
                    continue
                stats["parses"] += 1
                label = "%s [layout %s]" % (name, how)
                spans = check_tree(t, o["tree"], label, report)
                if how == "original":
                    def cnt(n, _p):
                        stats["nodes"] += 1
                        stats["names"] += 1 if n.get("n") is not None else 0
                    _walk(o["tree"], (), cnt)
                    ref = spans
                    if not name.startswith(("tests/", "std/")) and (tier != "quick" or name.startswith(("corpus/", "corpus_syntax/"))):
                        pq = drv.call(["queries", p], check=False, timeout=600)
                        try:
                            rows = [json.loads(x) for x in pq.stdout.split("\n") if x.strip()]
                            assert rows and "folding" in rows[-1]
                        except Exception:
                            res.inconc("syntax ranges: the services queries on %s gave no answer: %s" % (name, (pq.stdout[-100:] + pq.stderr)[-200:]))
                            rows = []
                        if rows:
                            stats["programs_queried"] += 1
                            stats["positions_queried"] += len(rows) - 1
                            check_queries(t, o["tree"], rows, label, report, stats)
                    if tier == "quick" and name.startswith(("tests/", "std/")):
                        break  # the repository's own programs: original layout only in the quick tier
                elif ref is not None:
                    for path_, sp in spans.items():
                        if path_ in ref and ref[path_] != sp:
                            k, a, b = ref[path_]
                            report("I6 the token span of a node depends on the layout", label,
                                   "%s at tokens %d..%d (%s .. %s) in the original layout, tokens %d..%d (%s .. %s) here"
                                   % (k, a, b, toks[a][1], toks[b][1], sp[1], sp[2], toks[sp[1]][1], toks[sp[2]][1]))
                    if set(spans) != set(ref) and not seen:
                        res.inconc("syntax ranges: %s has a different tree shape under layout %s" % (name, how))
    if stats["parses"] == 0:
        res.inconc("syntax ranges: nothing could be parsed")
    return stats
