//! Front-end / pipeline subcommands of the native driver.
use samlang_errors::ErrorSet;
use samlang_heap::{Heap, ModuleReference};
use std::collections::HashMap;

pub fn json_str(s: &str) -> String {
  let mut o = String::with_capacity(s.len() + 2);
  o.push('"');
  for c in s.chars() {
    match c {
      '"' => o.push_str("\\\""),
      '\\' => o.push_str("\\\\"),
      '\n' => o.push_str("\\n"),
      '\r' => o.push_str("\\r"),
      '\t' => o.push_str("\\t"),
      c if (c as u32) < 0x20 => o.push_str(&format!("\\u{:04x}", c as u32)),
      c => o.push(c),
    }
  }
  o.push('"');
  o
}

/// "a/b/C.sam" given as "a.b.C=path": module name is explicit.
fn read_sources(heap: &mut Heap, specs: &[String]) -> (HashMap<ModuleReference, String>, Vec<(String, ModuleReference)>) {
  let mut m = HashMap::new();
  let mut names = Vec::new();
  for s in specs {
    let (name, path) = s.split_once('=').expect("module=path");
    let text = std::fs::read_to_string(path).expect("readable source");
    let mr = heap.alloc_module_reference_from_string_vec(name.split('.').map(|x| x.to_string()).collect());
    m.insert(mr, text);
    names.push((name.to_string(), mr));
  }
  (m, names)
}

/// vdriver survive <file>   -> {"stages":"parse,check,render,ide,format,compile","errors":n,"compiled":bool}
/// Everything C05 names, on one module text (read lossily as UTF-8): parsing, type checking, diagnostic rendering
/// in the terminal and the IDE format, formatting, and whole-program compilation when there is no error.  A panic,
/// stack overflow or hang shows as the exit status / a timeout of this process.
pub fn survive_cmd(args: &[String]) {
  let heap = &mut Heap::new();
  let bytes = std::fs::read(&args[0]).expect("readable source");
  let text = String::from_utf8_lossy(&bytes).to_string();
  let mr = heap.alloc_module_reference_from_string_vec(vec!["Main".to_string()]);
  let mut texts = HashMap::new();
  texts.insert(mr, text.clone());
  for (m, t) in samlang_parser::builtin_std_raw_sources(heap) {
    texts.entry(m).or_insert(t);
  }
  let mut error_set = ErrorSet::new();
  let mut parsed = HashMap::new();
  for (m, t) in &texts {
    parsed.insert(*m, samlang_parser::parse_source_module_from_text(t, *m, heap, &mut error_set));
  }
  let _ = samlang_checker::type_check_sources(&parsed, &mut error_set);
  let rendered = error_set.pretty_print_error_messages(heap, &texts);
  let mut ide = 0;
  for e in error_set.errors() {
    let _ = e.to_ide_format(heap, &texts);
    ide += 1;
  }
  let formatted = samlang_printer::pretty_print_source_module(heap, 100, parsed.get(&mr).unwrap());
  let n = error_set.errors().len();
  let mut compiled = false;
  if n == 0 {
    compiled = samlang_compiler::compile_sources(heap, texts, vec![mr], false).is_ok();
  }
  println!(
    "{{\"stages\":\"parse,check,render,ide,format,compile\",\"errors\":{},\"rendered_bytes\":{},\"ide\":{},\"formatted_bytes\":{},\"compiled\":{}}}",
    n,
    rendered.len(),
    ide,
    formatted.len(),
    compiled
  );
}

/// vdriver exprloc <file>   -> {"loc":[start line, start column, end line, end column],"errors":n}
/// Parses the file as ONE expression with the real lexer + parser and prints the source range of the expression.
pub fn exprloc_cmd(args: &[String]) {
  let heap = &mut Heap::new();
  let text = std::fs::read_to_string(&args[0]).expect("readable source");
  let mr = heap.alloc_module_reference_from_string_vec(vec!["E".to_string()]);
  let mut error_set = ErrorSet::new();
  let (_, e) = samlang_parser::parse_source_expression_from_text(&text, mr, heap, &mut error_set);
  let l = e.loc();
  println!(
    "{{\"loc\":[{},{},{},{}],\"errors\":{}}}",
    l.start.0, l.start.1, l.end.0, l.end.1,
    error_set.errors().len()
  );
}

/// vdriver typecheck <module=path>...   -> one JSON object: {"errors": "<rendered, no frames>"}
/// std modules are always available (as the CLI does).
pub fn typecheck_cmd(args: &[String]) {
  let heap = &mut Heap::new();
  let (mut texts, _) = read_sources(heap, args);
  for (mr, t) in samlang_parser::builtin_std_raw_sources(heap) {
    texts.entry(mr).or_insert(t);
  }
  let mut error_set = ErrorSet::new();
  let mut parsed = HashMap::new();
  for (mr, t) in &texts {
    parsed.insert(*mr, samlang_parser::parse_source_module_from_text(t, *mr, heap, &mut error_set));
  }
  let _ = samlang_checker::type_check_sources(&parsed, &mut error_set);
  println!("{{\"errors\":{}}}", json_str(&error_set.pretty_print_error_messages_no_frame_for_test(heap)));
}

/// vdriver compile <outdir> <entry module> <module=path>...
/// Runs the real `compile_sources` (std included the way the CLI includes it), writes every emitted
/// file to <outdir>, validates the binary module with wasmparser, prints one JSON status line.
pub fn compile_cmd(args: &[String]) {
  let outdir = &args[0];
  let entry = &args[1];
  let heap = &mut Heap::new();
  let (mut texts, names) = read_sources(heap, &args[2..]);
  for (mr, t) in samlang_parser::builtin_std_raw_sources(heap) {
    texts.entry(mr).or_insert(t);
  }
  let entry_mr = names.iter().find(|(n, _)| n == entry).map(|(_, m)| *m).expect("entry module given");
  let r = std::panic::catch_unwind(std::panic::AssertUnwindSafe(|| {
    samlang_compiler::compile_sources(heap, texts, vec![entry_mr], false)
  }));
  match r {
    Err(_) => println!("{{\"status\":\"panic\"}}"),
    Ok(Err(e)) => println!("{{\"status\":\"rejected\",\"errors\":{}}}", json_str(&e)),
    Ok(Ok(res)) => {
      std::fs::create_dir_all(outdir).unwrap();
      for (name, text) in &res.text_code_results {
        std::fs::write(format!("{}/{}", outdir, name), text).unwrap();
      }
      std::fs::write(format!("{}/__all__.wasm", outdir), &res.wasm_file).unwrap();
      let mut v = wasmparser::Validator::new_with_features(wasmparser::WasmFeatures::all());
      let valid = match v.validate_all(&res.wasm_file) {
        Ok(_) => "null".to_string(),
        Err(e) => json_str(&format!("{}", e)),
      };
      println!(
        "{{\"status\":\"ok\",\"files\":[{}],\"wasm_validation_error\":{}}}",
        res.text_code_results.keys().map(|k| json_str(k)).collect::<Vec<_>>().join(","),
        valid
      );
    }
  }
}

fn parse_and_check(
  heap: &mut Heap,
  args: &[String],
) -> Result<HashMap<ModuleReference, samlang_ast::source::Module<std::sync::Arc<samlang_checker::type_::Type>>>, String> {
  let (mut texts, _) = read_sources(heap, args);
  for (mr, t) in samlang_parser::builtin_std_raw_sources(heap) {
    texts.entry(mr).or_insert(t);
  }
  let mut error_set = ErrorSet::new();
  let mut parsed = HashMap::new();
  for (mr, t) in &texts {
    parsed.insert(*mr, samlang_parser::parse_source_module_from_text(t, *mr, heap, &mut error_set));
  }
  let (checked, _) = samlang_checker::type_check_sources(&parsed, &mut error_set);
  if error_set.has_errors() {
    return Err(error_set.pretty_print_error_messages_no_frame_for_test(heap));
  }
  Ok(checked)
}

fn config_of(mask: &str) -> samlang_optimization::OptimizationConfiguration {
  let b: Vec<bool> = mask.chars().map(|c| c == '1').collect();
  samlang_optimization::OptimizationConfiguration {
    does_perform_local_value_numbering: b[0],
    does_perform_common_sub_expression_elimination: b[1],
    does_perform_loop_optimization: b[2],
    does_perform_inlining: b[3],
    does_perform_scalar_replacement: b[4],
  }
}

/// vdriver dump <outdir> <cfgs: comma separated 5-bit masks lvn,cse,loop,inline,sroa | none> <module=path>...
/// Runs the real pipeline stage by stage and writes a JSON snapshot of every IR:
///   mir_unopt.json, mir_opt_<mask>.json, and for mask 11111 also lir.json, all.wat, all.ts
/// Each optimizer configuration is produced by an independent run of the real front end + optimizer.
pub fn dump_cmd(args: &[String]) {
  let outdir = &args[0];
  let cfgs: Vec<&str> = if args[1] == "none" { Vec::new() } else { args[1].split(',').collect() };
  std::fs::create_dir_all(outdir).unwrap();
  let r = std::panic::catch_unwind(std::panic::AssertUnwindSafe(|| {
    let heap = &mut Heap::new();
    let checked = match parse_and_check(heap, &args[2..]) {
      Ok(c) => c,
      Err(e) => {
        println!("{{\"status\":\"rejected\",\"errors\":{}}}", json_str(&e));
        return;
      }
    };
    let mut written = vec!["mir_unopt.json".to_string()];
    let od = outdir.clone();
    let mut stage_files: Vec<String> = Vec::new();
    let mir = samlang_compiler::verif_hooks::compile_sources_to_mir_staged(heap, &checked, |name, h, src| {
      std::fs::write(format!("{}/mir_{}.json", od, name), crate::irjson::mir_sources(h, src)).unwrap();
      stage_files.push(format!("mir_{}.json", name));
    }, |h, src| {
      std::fs::write(format!("{}/hir.json", od), crate::irjson::hir_sources(h, src)).unwrap();
    });
    written.extend(stage_files);
    std::fs::write(format!("{}/mir_unopt.json", outdir), crate::irjson::mir_sources(heap, &mir)).unwrap();
    for mask in &cfgs {
      // one front-end run; every configuration optimizes a deep copy of the same unoptimized MIR
      let copy = samlang_ast::mir::verif_harness::clone_sources(&mir);
      let opt = samlang_optimization::optimize_sources(heap, copy, &config_of(mask));
      std::fs::write(format!("{}/mir_opt_{}.json", outdir, mask), crate::irjson::mir_sources(heap, &opt)).unwrap();
      written.push(format!("mir_opt_{}.json", mask));
      if *mask == "11111" || *mask == "00000" {
        // the back half of the pipeline: what users get (11111) and, to keep every source function alive,
        // the same lowering applied to the unoptimized program (00000)
        let sfx = if *mask == "11111" { "".to_string() } else { format!("_{}", mask) };
        let mut lir = samlang_compiler::compile_mir_to_lir(heap, opt);
        std::fs::write(format!("{}/lir{}.json", outdir, sfx), crate::irjson::lir_sources(heap, &lir)).unwrap();
        let ts = lir.pretty_print(heap);
        std::fs::write(format!("{}/all{}.ts", outdir, sfx), ts).unwrap();
        let _ = &mut lir;
        let (wat, wasm) = samlang_compiler::compile_lir_to_wasm(heap, lir);
        std::fs::write(format!("{}/all{}.wat", outdir, sfx), wat).unwrap();
        let mut v = wasmparser::Validator::new_with_features(wasmparser::WasmFeatures::all());
        let mut func_index: i64 = -1;
        let verr = match v.validate_all(&wasm) {
          Ok(_) => "null".to_string(),
          Err(e) => {
            // which function body contains the offending offset
            let mut k: i64 = 0;
            for payload in wasmparser::Parser::new(0).parse_all(&wasm) {
              if let Ok(wasmparser::Payload::CodeSectionEntry(body)) = payload {
                let r = body.range();
                if r.start <= e.offset() && e.offset() < r.end {
                  func_index = k;
                }
                k += 1;
              }
            }
            json_str(&format!("{}", e))
          }
        };
        std::fs::write(
          format!("{}/wasm_validation{}.json", outdir, sfx),
          format!("{{\"error\":{},\"defined_function_index\":{}}}", verr, func_index),
        )
        .unwrap();
        written.push("lir.json".to_string());
        written.push("all.wat".to_string());
      }
    }
    println!("{{\"status\":\"ok\",\"files\":[{}]}}", written.iter().map(|w| json_str(w)).collect::<Vec<_>>().join(","));
  }));
  if r.is_err() {
    println!("{{\"status\":\"panic\"}}");
  }
}
