import json
NA = {
 "C08": "Formatting round trip: source_printer (Rc Document trees, String building) and the full recursive-descent parser cannot be encoded for a solver within reach (DESIGN.md section 1: Kani on HashMap/Rc code does not finish); the quantifier is over syntax-tree shapes, not over a value domain a solver can make symbolic. Not checked with another technique.",
 "C09": "Formatter idempotence / comment preservation: same code and same reason as C08; comment attachment is spread over ~60 parser productions and the Wadler layouter with no arithmetic kernel whose correctness would imply the property.",
 "C10": "Incremental = from-scratch diagnostics: quantified over edit histories of ServerState (parser + checker + HashMaps + rayon), not encodable; the only separable kernel (dep_graph::affected_set) does not decide the property.",
 "C11": "Language server survives every history: needs completeness of the GC marker w.r.t. every PStr-carrying AST field plus histories x GC schedules over the real state; not a solver query within reach (the heap's half is decided under C17).",
 "C12": "Independence from hashing/scheduling: the nondeterminism lives in std HashMap iteration order and rayon; Kani supports neither threads nor (in budget) hashbrown, and making iteration order symbolic would need the whole lowering pipeline under the solver.",
 "C13": "Inference stable under rewrites: a metamorphic relation over the type checker on all programs; no value quantifier for a solver and the checker is not encodable.",
 "C15": "Navigation/rename vs scoping: agreement of two tree walkers (variable_definition.rs, ssa_analysis.rs) over all programs; purely structural, nothing for a solver to quantify over.",
 "C16": "Text edits apply cleanly: ast_differ is HashMap/Rc/VecDeque code over ASTs; a Myers-diff kernel on symbolic elements is out of reach of CBMC in budget and would not decide the splice-into-text claim.",
}
PENDING = {
 "C01": "engine not built yet in this snapshot (E-T/E-W translation validation of the lowering stages); see DESIGN.md section 8",
 "C04": "engine not built yet in this snapshot (operator templates / libsam.wat symbolic execution)",
 "C06": "engine not built yet in this snapshot (integer literal range kernel)",
}
import sys
claimed = json.load(open('/verif/manifest_checks.json'))
ids = {c["property_id"] for c in claimed}
na = [{"property_id": k, "reason": v} for k, v in sorted(NA.items())]
na += [{"property_id": k, "reason": v} for k, v in sorted(PENDING.items()) if k not in ids]
m = {
 "version": 1,
 "setup_cmd": "python3-vt /verif/vsetup.py",
 "hooks": {
  "guard": "samlang_verif",
  "enable": "No hook is committed to /repo. Every check rsyncs /repo's working tree to a scratch copy under /var/tmp/verif-cache/<slot>/w and appends `#[cfg(any(kani, samlang_verif))] #[path=\"/verif/harness/...\"] pub mod verif_harness;` lines to the files that own the private functions under test; the scratch copy is built with RUSTFLAGS=--cfg samlang_verif (native driver) or under cargo kani (cfg kani).",
  "baseline_off_cmd": "cd /repo && CARGO_NET_OFFLINE=true cargo test --workspace --no-fail-fast --offline",
  "source_commits": [],
  "add_only": True
 },
 "engines": [
  {"name": "E-T", "path": "/verif/vlib/irsym.py", "serves_properties": ["C01", "C02"], "kind_free_text": "symbolic execution of MIR/LIR snapshots of the real pipeline + SMT equivalence (translation validation)"},
  {"name": "E-W", "path": "/verif/vlib/wat.py", "serves_properties": ["C01", "C04"], "kind_free_text": "symbolic interpreter for the emitted WAT text and libsam.wat"},
  {"name": "E-M", "path": "/verif/vlib/mir.py", "serves_properties": ["C02", "C03", "C06"], "kind_free_text": "symbolic execution of rustc MIR (-Zunpretty=mir) of the current tree into z3 terms; z3 + cvc5 (bit-vectors) and an exact integer re-encoding (vlib/bv2int.py) for division/multiplication kernels"},
  {"name": "E-K", "path": "/verif/vlib/kani.py", "serves_properties": ["C05", "C14", "C17"], "kind_free_text": "Kani 0.68 / CBMC 6.11 proof harnesses appended as child modules to the scratch copy of the crate"},
  {"name": "E-D", "path": "/verif/checks/c07.py", "serves_properties": ["C07"], "kind_free_text": "z3 algebraic-datatype oracle over all values vs. the real checker run on enumerated pattern lists"},
  {"name": "driver", "path": "/verif/driver", "serves_properties": ["C02", "C03", "C07"], "kind_free_text": "native Rust driver built against the scratch copy: kernel entry points for translator validation / witness replay, real type checker and compile pipeline"}
 ],
 "checks": claimed,
 "notes": "Exit codes: 0 held / 1 VIOLATION (witness replayed against the real code) / 2 INCONCLUSIVE (encoding could not be regenerated, solver gave up, witness did not replay). known_findings.json lists genuine defects (fixed ones suppress nothing).",
 "not_applicable": na,
}
json.dump(m, open('/verif/MANIFEST.json','w'), indent=1)
import jsonschema
jsonschema.validate(m, json.load(open('/root/.vp/MANIFEST.schema.json')))
print("manifest ok", sorted(ids), [x["property_id"] for x in na])
