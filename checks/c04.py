"""C04: TypeScript vs WebAssembly back end.

Part 1 (operators): for every BinaryOperator the TypeScript text the real printer emits for
`let r = a <op> b` (driver `optable`, read from the code of the current tree) is parsed into a tiny
JS expression and given ECMAScript number semantics over mathematical integers; the WAT text the
real printer emits gives the WASM instruction.  One SMT query per operator asks for i32 operands on
which the two disagree, excluding the runs the property excludes (i32 overflow of + - *, division
or remainder by zero, INT_MIN / -1).
"""
import re

import z3

from vlib import smt
from vlib.common import Inconclusive, load_known
from checks.kernels import wasm_sem, parse_wat_binary, OPS

INT_MIN = -(1 << 31)
INT_MAX = (1 << 31) - 1


def s2i(bv):
    """signed value of a 32-bit vector as a mathematical integer"""
    return z3.BV2Int(bv, is_signed=True)


def to_int32(x):
    """ECMAScript ToInt32 of a mathematical integer"""
    m = x % (1 << 32)
    return z3.If(m >= (1 << 31), m - (1 << 32), m)


def to_uint32(x):
    return x % (1 << 32)


def js_floor_div(a, b):
    """Math.floor(a / b) for integers a, b (b != 0): z3's integer `/` rounds towards -inf for b > 0 and towards
    +inf for b < 0 (remainder is always non-negative)"""
    return z3.If(b > 0, a / b, (-a) / (-b))


def js_trunc_div(a, b):
    q = js_floor_div(z3.If(a >= 0, a, -a), z3.If(b >= 0, b, -b))
    return z3.If((a >= 0) == (b >= 0), q, -q)


def js_binary(sym, a, b, A, B):
    """value (mathematical integer) of the JS expression `a sym b` on int32-valued numbers; A, B are the bit-vectors"""
    if sym == "+":
        return a + b
    if sym == "-":
        return a - b
    if sym == "*":
        return a * b
    if sym == "%":
        return a - b * js_trunc_div(a, b)
    if sym == "&":
        return s2i(A & B)
    if sym == "|":
        return s2i(A | B)
    if sym == "^":
        return s2i(A ^ B)
    if sym == "<<":
        return s2i(A << (B & z3.BitVecVal(31, 32)))
    if sym == ">>":
        return s2i(A >> (B & z3.BitVecVal(31, 32)))
    if sym == ">>>":
        return z3.BV2Int(z3.LShR(A, B & z3.BitVecVal(31, 32)), is_signed=False)   # unsigned result
    cmp = {"<": a < b, "<=": a <= b, ">": a > b, ">=": a >= b, "==": a == b, "===": a == b, "!=": a != b, "!==": a != b}
    if sym in cmp:
        return ("bool", cmp[sym])
    raise Inconclusive("unknown JS operator `%s` in the emitted TypeScript" % sym)


def parse_ts(ts):
    """`let r = <expr>;` with <expr> one of: a OP b | Math.floor(a OP b) | Number(a OP b)"""
    m = re.match(r"^\s*let r = (.*);\s*$", ts.strip())
    if not m:
        raise Inconclusive("unexpected TypeScript for a binary statement: %r" % ts)
    e = m.group(1).strip()
    wrap = None
    mm = re.match(r"^(Math\.floor|Math\.trunc|Number)\((.*)\)$", e)
    if mm:
        wrap, e = mm.group(1), mm.group(2).strip()
    mm = re.match(r"^\(?\s*a (\S+) b\s*\)?(?: \| 0)?$", e)
    if not mm:
        raise Inconclusive("unexpected TypeScript operator template: %r" % ts)
    return wrap, mm.group(1), e.endswith("| 0")


# operators decided over bit-vectors.  `%`: ECMAScript's remainder takes the sign of the dividend and
# |r| < |d| -- that is exactly SMT-LIB's bvsrem on the int32 operands (b == 0 is excluded).
BITWISE = {"&", "|", "^", "<<", ">>", ">>>", "%"}


def run_ops(res, tier, drv, constructed):
    from vlib import bv2int
    table = {r["discr"]: r for r in drv.optable() if "discr" in r}
    A, B = z3.BitVec("a", 32), z3.BitVec("b", 32)
    known = load_known("C04")
    obligations = discharged = 0
    rows = []
    for o in range(16):
        name = OPS[o]
        instr = parse_wat_binary(table[o]["wat"])
        wasm_val, trap = wasm_sem(instr, A, B)
        wrap, sym, or0 = parse_ts(table[o]["ts"])
        excl_known = []
        if sym in BITWISE:
            # both sides are functions of the two 32-bit patterns: decided over bit-vectors.  JS bitwise operators
            # apply ToInt32 and yield an int32, except `>>>` which yields the *unsigned* value.
            amt = B & z3.BitVecVal(31, 32)
            jsbv = {"&": A & B, "|": A | B, "^": A ^ B, "<<": A << amt, ">>": A >> amt, ">>>": z3.LShR(A, amt), "%": z3.SRem(A, B)}[sym]
            differs = jsbv != wasm_val
            if sym == ">>>":
                # unsigned JS number vs signed i32: different numbers exactly when the top bit is set
                differs = z3.Or(differs, wasm_val < 0)
            assertions = [z3.Not(trap), differs]
            js_of = lambda m: (m.eval(jsbv, model_completion=True).as_long() if sym == ">>>" else m.eval(jsbv, model_completion=True).as_signed_long())
        else:
            tr = bv2int.Tr()
            a, _, _ = tr.bv(A)
            b, _, _ = tr.bv(B)
            W, _, _ = tr.bv(wasm_val)
            T = tr.bool(trap)
            if sym == "/":
                if wrap == "Math.floor":
                    js = js_floor_div(a, b)
                elif wrap == "Math.trunc" or or0:
                    js = js_trunc_div(a, b)
                else:
                    raise Inconclusive("division emitted without rounding: %r" % table[o]["ts"])
            else:
                js = js_binary(sym, a, b, A, B)
                if isinstance(js, tuple):
                    js = z3.If(js[1], z3.IntVal(1), z3.IntVal(0))
                    if wrap != "Number":
                        # a JS boolean where WASM has 0/1: same truthiness required
                        pass
                elif or0:
                    js = to_int32(js)
            differs = js != W
            excluded = [z3.Not(T)]
            if name in ("PLUS", "MINUS", "MUL"):
                exact = {"PLUS": a + b, "MINUS": a - b, "MUL": a * b}[name]
                excluded.append(z3.And(exact >= INT_MIN, exact <= INT_MAX))
            for k in known:
                if k.get("operator") == name and k.get("id") == "F4":
                    r_ = a - b * js_trunc_div(a, b)
                    excl_known.append(z3.Not(z3.And(r_ != 0, (a < 0) != (b < 0))))
            assertions = tr.side + excluded + excl_known + [differs]
            js_of = lambda m, js=js: m.eval(js, model_completion=True).as_long()
            Aint, Bint = a, b
        obligations += 1
        s_ = z3.Solver()
        s_.set("timeout", (60 if tier == "quick" else 600) * 1000)
        s_.add(*assertions)
        rr = s_.check()
        r = "sat" if rr == z3.sat else ("unsat" if rr == z3.unsat else "unknown")
        smt.STATS["queries"] += 1
        smt.STATS[r] += 1
        row = {"operator": name, "ts": table[o]["ts"].strip(), "wat": table[o]["wat"], "verdict": r}
        if excl_known:
            row["known_finding_excluded"] = "F4"
            if replay_concrete(sym, wrap, or0, instr, -7, 2):
                res.known("F4 TS `Math.floor(a / b)` vs WASM `i32.div_s`: -7 / 2 is -4 in TypeScript and -3 in WebAssembly")
        if r == "unsat":
            discharged += 1
        elif r == "sat":
            m = s_.model()
            if sym in BITWISE:
                av, bv_ = smt.model_int(m, A), smt.model_int(m, B)
            else:
                av, bv_ = m.eval(Aint, model_completion=True).as_long(), m.eval(Bint, model_completion=True).as_long()
            row.update({"a": av, "b": bv_, "ts_value": js_of(m)})
            if not replay_concrete(sym, wrap, or0, instr, av, bv_):
                res.inconc("operator %s: witness a=%d b=%d does not replay concretely" % (name, av, bv_))
            elif name not in constructed:
                row["latent"] = "operator is never constructed outside test code"
            else:
                res.violation("TS and WASM disagree on `%d %s %d`" % (av, sym, bv_),
                              {"property": "C04", "operator": name, "a": av, "b": bv_, "ts": table[o]["ts"], "wat": table[o]["wat"],
                               "ts_value": row["ts_value"]})
        else:
            res.inconc("solver inconclusive on operator %s" % name)
        rows.append(row)
        res.sample(row, cap=20)
    return {"operator_obligations": obligations, "operator_discharged": discharged, "operators": rows}


def replay_concrete(sym, wrap, or0, instr, a, b):
    import math

    def i32(x):
        x &= 0xFFFFFFFF
        return x - (1 << 32) if x >= (1 << 31) else x
    try:
        if sym == "/":
            js = math.floor(a / b) if wrap == "Math.floor" else math.trunc(a / b)
        elif sym == "%":
            js = int(math.fmod(a, b))
        elif sym == "+":
            js = a + b
        elif sym == "-":
            js = a - b
        elif sym == "*":
            js = a * b
        elif sym == "&":
            js = i32(a & b)
        elif sym == "|":
            js = i32(a | b)
        elif sym == "^":
            js = i32(a ^ b)
        elif sym == "<<":
            js = i32((a & 0xFFFFFFFF) << (b & 31))
        elif sym == ">>":
            js = i32(a) >> (b & 31)
        elif sym == ">>>":
            js = (a & 0xFFFFFFFF) >> (b & 31)
        else:
            js = int({"<": a < b, "<=": a <= b, ">": a > b, ">=": a >= b, "==": a == b, "===": a == b, "!=": a != b, "!==": a != b}[sym])
    except ZeroDivisionError:
        return False
    A, B = z3.BitVecVal(a, 32), z3.BitVecVal(b, 32)
    w = z3.simplify(wasm_sem(instr, A, B)[0]).as_signed_long()
    return js != w
