"""Scratch-workspace preparation shared by the checks: harness injection, driver build, MIR dumps."""
import json
import os
import subprocess

from .common import VERIF, GUARD, Inconclusive, run, log

HARNESS = os.path.join(VERIF, "harness")

# (file in the scratch copy, harness file under /verif/harness, module name)
INJECTIONS = [
    ("crates/samlang-optimization/src/conditional_constant_propagation.rs", "opt/ccp.rs", "verif_harness"),
    ("crates/samlang-optimization/src/loop_algebraic_optimization.rs", "opt/lao.rs", "verif_harness"),
    ("crates/samlang-optimization/src/loop_induction_analysis.rs", "opt/lia.rs", "verif_harness"),
    ("crates/samlang-optimization/src/lib.rs", "opt/hooks_lib.rs", "verif_hooks"),
    ("crates/samlang-ast/src/wasm.rs", "ast/wasm_h.rs", "verif_harness"),
    ("crates/samlang-ast/src/lir.rs", "ast/lir_h.rs", "verif_harness"),
    ("crates/samlang-ast/src/mir.rs", "ast/mir_h.rs", "verif_harness"),
    ("crates/samlang-compiler/src/hir_lowering.rs", "compiler/stages_h.rs", "verif_harness"),
    ("crates/samlang-compiler/src/lib.rs", "compiler/hooks_lib.rs", "verif_hooks"),
]

RELEASE_ENV = {
    # what users run: no overflow checks, no debug assertions; LTO off only to keep the build short
    "CARGO_PROFILE_RELEASE_LTO": "off",
    "CARGO_PROFILE_RELEASE_STRIP": "none",
    "CARGO_PROFILE_RELEASE_CODEGEN_UNITS": "16",
    "CARGO_PROFILE_RELEASE_OPT_LEVEL": "1",
}


def inject(sc, extra=()):
    for rel, h, mod in list(INJECTIONS) + list(extra):
        sc.append_child_module(rel, os.path.join(HARNESS, h), mod)


def build_driver(sc, profile="release"):
    """Build /verif/driver inside the scratch workspace against the scratch copy of the crates."""
    sc.add_workspace_member(os.path.join(VERIF, "driver"), "verif-driver")
    args = ["build", "--offline", "-p", "verif-driver"]
    env = {}
    if profile == "release":
        args.append("--release")
        env.update(RELEASE_ENV)
    sc.cargo(args, rustflags="--cfg %s -A warnings" % GUARD, env=env, timeout=1500)
    return os.path.join(sc.target, profile if profile == "release" else "debug", "vdriver")


def mir_dump(sc, crate, overflow_checks):
    """rustc's MIR for one crate of the scratch copy.  overflow_checks=False is the release
    semantics (wrapping), True the dev semantics (overflow panics)."""
    lib = os.path.join(sc.w, "crates", crate, "src", "lib.rs")
    os.utime(lib, None)  # force rustc to re-run (cargo prints nothing for a fresh unit)
    p = sc.cargo(
        ["rustc", "--offline", "-p", crate, "--lib", "--", "-Zunpretty=mir", "-C", "debug-assertions=off",
         "-C", "overflow-checks=%s" % ("on" if overflow_checks else "off"), "-A", "warnings"],
        toolchain="nightly", target=os.path.join(sc.root, "target-nightly"), timeout=900)
    if "fn " not in p.stdout:
        raise Inconclusive("empty MIR dump for %s" % crate)
    with open(os.path.join(sc.root, "%s.%s.mir" % (crate, "dev" if overflow_checks else "release")), "w") as f:
        f.write(p.stdout)
    return p.stdout


class Driver:
    def __init__(self, path):
        self.path = path

    def kernels(self, requests):
        """requests: list of (name, [ints]) -> list of dict"""
        inp = "\n".join("%s %s" % (n, " ".join(str(int(a)) for a in args)) for n, args in requests) + "\n"
        p = run([self.path, "kernels"], input=inp, timeout=120)
        out = [json.loads(l) for l in p.stdout.strip().split("\n") if l.strip()]
        if len(out) != len(requests):
            raise Inconclusive("driver answered %d of %d kernel requests" % (len(out), len(requests)))
        return out

    def optable(self):
        p = run([self.path, "optable"], timeout=60)
        rows = [json.loads(l) for l in p.stdout.strip().split("\n") if l.strip()]
        return rows

    def call(self, args, timeout=600, check=True, input=None):
        return run([self.path] + args, timeout=timeout, check=check, input=input)
