"""C18 (E-T): one inductive step of each std Map operation from an ARBITRARY valid tree.

`corpus_spec/MapSpec.sam` states, in samlang, the representation invariant of std/map.sam and the finite
map a tree denotes; each `step*` function assumes the invariant for a symbolic tree of bounded height,
performs one real operation and asserts the finite-map meaning of the result (and that the invariant is
re-established).  The program is compiled by the real compiler together with std/map.sam; E-T executes the
MIR of each step function on symbolic arguments (lazily initialised trees constrained to well-formed
representations) and asks the solver whether any `Process.panic` is reachable.  Because the pre-state is
arbitrary, one step covers operation sequences of any length over trees within the height bound.
"""
import concurrent.futures
import json
import os
import time

import z3

import re
import subprocess

from vlib import irsym, ts2js
from vlib.common import Inconclusive, VERIF, load_known

STEPS_QUICK = [("stepGet", 200), ("stepInsert", 120), ("stepRemove", 420), ("stepMinMax", 240), ("stepRemoveRoot", 420)]
MAPT = "std$map_Map__std$boxed_Int_int"


def js_value(witness, key, ty):
    """the concrete value a solver model assigns to argument `key`, in the representation of the emitted TypeScript:
    Empty = 1, Leaf = [3, [k], v], Node = [5, h, [k], v, l, r], Int = [n]"""
    F = witness["object_fields"]
    facts = witness["object_facts"]
    if ty == "int":
        return witness["arguments"].get(key, 0)
    if ty == "std$boxed_Int":
        return [F.get(key + "@std$boxed_Int.f0", 0)]
    if ty == MAPT:
        tag = F.get(key + "@#tag.f0")
        if facts.get("isi31!" + key) or tag is None:
            return 1
        if tag == 3:
            b = key + "@" + MAPT + "$_Sub1"
            return [3, js_value(witness, b + ".f1", "std$boxed_Int"), F.get(b + ".f2", 0)]
        if tag == 5:
            b = key + "@" + MAPT + "$_Sub2"
            return [5, F.get(b + ".f1", 0), js_value(witness, b + ".f2", "std$boxed_Int"), F.get(b + ".f3", 0),
                    js_value(witness, b + ".f4", MAPT), js_value(witness, b + ".f5", MAPT)]
    raise Inconclusive("cannot turn the model value of %s : %s into a concrete value" % (key, ty))


def replay(js_text, fn, params, ptypes, witness, workdir, tag):
    """run the witness against the program the real compiler emitted (its TypeScript output, types stripped, in node).
    -> (panic message or None, js value list)"""
    m = re.search(r"^function %s\(([^)]*)\) \{$" % re.escape(fn), js_text, re.M)
    if not m:
        raise Inconclusive("replay: %s is not a function of the emitted program" % fn)
    names = [x.strip() for x in m.group(1).split(",") if x.strip()]
    vals = []
    for n in names:
        i = params.index(n)
        ty = ptypes[i]
        ty = ty if isinstance(ty, str) else ty.get("id")
        key = n if ty == "int" else "a%d" % i
        vals.append(js_value(witness, key, ty))
    body = "\n".join(l for l in js_text.split("\n") if not re.match(r"^_MapSpec_Main\$main\(\);$", l))
    body += "\nconst ARGS = %s;\ntry { %s(...ARGS); console.log('REPLAY returned'); } catch (e) { console.log('REPLAY PANIC ' + e.message); }\n" % (json.dumps(vals), fn)
    path = os.path.join(workdir, "replay_%s.js" % tag)
    open(path, "w").write(body)
    p = subprocess.run(["node", "--stack-size=4000", path], capture_output=True, text=True, timeout=120)
    out = [l for l in p.stdout.split("\n") if l.startswith("REPLAY ")]
    if not out:
        raise Inconclusive("replay: node produced no verdict: %s" % (p.stderr[-300:]))
    return (out[-1][len("REPLAY PANIC "):] if out[-1].startswith("REPLAY PANIC ") else None), vals

BOUNDS = {"forks": 50, "steps": 400000, "paths": 40000, "depth": 80}


def _run_step(job):
    mir_file, step, seconds = job
    P = irsym.Prog(json.load(open(mir_file)))
    names = [n for n in P.fns if n.endswith("$" + step)]
    if len(names) != 1:
        return {"step": step, "status": "missing"}
    fn = names[0]
    w = irsym.World()
    w.is_subtype = P.is_subtype
    w.types = P.types
    b = dict(BOUNDS, seconds=seconds)
    ex = irsym.Exec(P, w, "new", True, b)
    ex.deadline = time.time() + seconds
    f = P.fns[fn]
    args = irsym.mk_args(f, w)
    t0 = time.time()
    try:
        paths = ex.run(fn, args)
    except irsym.Unsupported as e:
        return {"step": step, "status": "unsupported", "why": str(e)}
    out = {"step": step, "status": "ok", "paths": len(paths), "returned": 0, "bounded": 0, "panic_paths": 0, "infeasible_panic_paths": 0,
           "reached_operation": 0, "violations": [], "wall_s": 0, "queries": ex.queries}
    op = {"stepGet": "$get", "stepInsert": "$insert", "stepRemove": "$remove", "stepMinMax": "$min", "stepRemoveRoot": "$remove"}[step]
    chk = z3.Solver()
    chk.set("timeout", 30000)
    for p in paths:
        if any(n.endswith(op) and "std$map" in n for n in getattr(p, "entered", ())):
            out["reached_operation"] += 1
        if p.outcome == "return":
            out["returned"] += 1
        elif p.outcome == "bound":
            out["bounded"] += 1
        elif p.outcome in ("panic", "trap"):
            out["panic_paths"] += 1
            chk.push()
            chk.add(*p.pc)
            chk.add(*w.axioms)
            r = chk.check()
            if r == z3.sat:
                m = chk.model()
                msg = ""
                if p.trace and p.trace[-1][0] == "__Process$panic":
                    a = p.trace[-1][2][-1] if p.trace[-1][2] else None
                    msg = a.s if isinstance(a, irsym.Str) else repr(a)
                else:
                    msg = p.why or p.outcome
                if len(out["violations"]) < 6:
                    out["fn"], out["params"], out["ptypes"] = fn, f["params"], f["ptypes"]
                    out["violations"].append({"message": msg, "outcome": p.outcome, "witness": irsym.model_args(m, f, w),
                                              "entered": sorted(n for n in getattr(p, "entered", ()) if "std$map" in n)[:12]})
                else:
                    out["violations"].append({"message": msg})
            elif r == z3.unsat:
                out["infeasible_panic_paths"] += 1
            else:
                out["status"] = "inconclusive"
            chk.pop()
    out["wall_s"] = round(time.time() - t0, 1)
    return out


def run(res, tier, sc, drv):
    spec = os.path.join(VERIF, "corpus_spec", "MapSpec.sam")
    od = os.path.join(sc.root, "et", "MapSpec")
    mods = ["MapSpec=" + spec, "std.map=" + os.path.join(sc.w, "std", "map.sam"), "std.list=" + os.path.join(sc.w, "std", "list.sam"),
            "std.option=" + os.path.join(sc.w, "std", "option.sam"), "std.boxed=" + os.path.join(sc.w, "std", "boxed.sam"),
            "std.tuples=" + os.path.join(sc.w, "std", "tuples.sam"), "std.interfaces=" + os.path.join(sc.w, "std", "interfaces.sam")]
    p = drv.call(["dump", od, "none"] + mods, check=False, timeout=600)
    if '"status":"ok"' not in p.stdout:
        raise Inconclusive("the specification program does not compile against the current std: %s" % p.stdout[:400])
    mir = os.path.join(od, "mir_unopt.json")
    scale = 1 if tier == "quick" else 6
    jobs = [(mir, s, secs * scale) for s, secs in STEPS_QUICK]
    known = load_known("C18")
    results = []
    with concurrent.futures.ProcessPoolExecutor(max_workers=len(jobs)) as ex:
        for r in ex.map(_run_step, jobs):
            results.append(r)
    total_paths = 0
    js_text = [None]
    replayed = 0
    for r in results:
        if r["status"] in ("missing", "unsupported"):
            res.inconc("step %s: %s %s" % (r["step"], r["status"], r.get("why", "")))
            continue
        if r["status"] == "inconclusive":
            res.inconc("step %s: solver unknown on a panic path" % r["step"])
        total_paths += r["paths"]
        if r["reached_operation"] == 0:
            res.inconc("step %s is vacuous: no path entered the operation under test" % r["step"])
        msgs = {}
        for v in r["violations"]:
            msgs.setdefault(v["message"], []).append(v)
        for msg, vs in msgs.items():
            # replay the solver's witness against the program the real compiler emits before reporting it
            if js_text[0] is None:
                rd = os.path.join(sc.root, "et", "MapSpecRun")
                pc = drv.call(["compile", rd, "MapSpec"] + mods, check=False, timeout=600)
                if '"status":"ok"' not in pc.stdout:
                    raise Inconclusive("replay: the specification program does not compile to TypeScript: %s" % pc.stdout[:300])
                js_text[0] = ts2js.strip(open(os.path.join(rd, "MapSpec.ts")).read())
                js_text.append(rd)
            confirmed = None
            tried = 0
            for v in vs:
                if "witness" not in v:
                    continue
                tried += 1
                got, vals = replay(js_text[0], r["fn"], r["params"], r["ptypes"], v["witness"], js_text[1], "%s_%d" % (r["step"], tried))
                v["replay"] = {"arguments": vals, "panic": got}
                if got is not None and (got == msg or not msg):
                    confirmed = v
                    break
            if confirmed is None:
                res.inconc("step %s: the solver reports `%s` reachable but %d witness(es) did not replay on the emitted program (model of the heap too weak?)"
                           % (r["step"], msg, tried))
                continue
            replayed += 1
            kn = [k for k in known if k.get("step") == r["step"] and k.get("message") == msg]
            if kn:
                res.known("%s std Map %s: %s" % (kn[0]["id"], r["step"], kn[0]["short"]))
            else:
                res.violation("std Map %s: `%s` is reachable from a valid tree (%d paths; witness replayed on the emitted program: %s)"
                              % (r["step"], msg or "match fallback / Bad tree", len(vs), json.dumps(confirmed["replay"]["arguments"])),
                              {"property": "C18", "step": r["step"], "message": msg, "example": confirmed,
                               "how_to_replay": "compile corpus_spec/MapSpec.sam with the real compiler, strip types from MapSpec.ts (vlib/ts2js.py), call %s(...arguments) in node" % r["fn"]})
        res.sample({k: v for k, v in r.items() if k != "violations"})
    res.coverage.update({
        "states": max(1, total_paths), "transitions": max(1, len(results)), "traces_validated_against_impl": replayed,
        "steps": [{k: v for k, v in r.items() if k != "violations"} for r in results],
        "bounds": {"tree height": "get/remove/min/max/size: <= 3, insert: <= 2", "keys": "|k| < 10^9 (Int.compare cannot overflow)",
                   "time per step (s)": {s: secs * scale for s, secs in STEPS_QUICK}},
        "explanation": "states = symbolic paths explored (each a tree shape x key ordering class, all key/value integers symbolic); one inductive "
                       "step per operation from an arbitrary tree satisfying the representation invariant written in corpus_spec/MapSpec.sam",
    })
    res.assumptions += [
        "the representation invariant and the finite-map meaning are the ones written in corpus_spec/MapSpec.sam (BST order, exact stored heights, |hl - hr| <= 2, Node height >= 2)",
        "executed on the unoptimized MIR of the real compiler (the optimizer is validated separately under C02)",
        "only Map<Int, int>; Set and List, union / merge / split / filter / fold are not covered",
    ]
