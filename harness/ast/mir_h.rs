// Child module of samlang-ast/src/mir.rs (scratch copy only): deep copy of `Sources`, so that one
// front-end run can be optimized under several configurations (independent front-end runs number
// synthetic functions/types differently because they iterate HashMaps).
#![allow(dead_code, unused_imports)]
use super::*;

pub fn clone_symbol_table(t: &SymbolTable) -> SymbolTable {
  let mut n = SymbolTable {
    type_name_interning_table: HashMap::new(),
    type_name_lookup_table: HashMap::new(),
    subtype_to_parent: t.subtype_to_parent.clone(),
  };
  for (id, name) in &t.type_name_lookup_table {
    let b: Box<TypeName> = Box::new((**name).clone());
    let p: &'static TypeName = unsafe { (b.as_ref() as *const TypeName).as_ref().unwrap() };
    n.type_name_interning_table.insert(p, *id);
    n.type_name_lookup_table.insert(*id, b);
  }
  n
}

pub fn clone_sources(s: &Sources) -> Sources {
  Sources {
    symbol_table: clone_symbol_table(&s.symbol_table),
    global_variables: s.global_variables.clone(),
    closure_types: s.closure_types.clone(),
    type_definitions: s.type_definitions.clone(),
    main_function_names: s.main_function_names.clone(),
    functions: s.functions.clone(),
  }
}
