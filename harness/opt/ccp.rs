// Child module of samlang-optimization/src/conditional_constant_propagation.rs (scratch copy only).
// Native entry points for translator validation / witness replay, and Kani harnesses.
#![allow(dead_code, unused_imports)]
use super::*;
use samlang_ast::hir::BinaryOperator;

pub const ALL_OPS: [BinaryOperator; 16] = [
  BinaryOperator::MUL,
  BinaryOperator::DIV,
  BinaryOperator::MOD,
  BinaryOperator::PLUS,
  BinaryOperator::MINUS,
  BinaryOperator::LAND,
  BinaryOperator::LOR,
  BinaryOperator::SHL,
  BinaryOperator::SHR,
  BinaryOperator::XOR,
  BinaryOperator::LT,
  BinaryOperator::LE,
  BinaryOperator::GT,
  BinaryOperator::GE,
  BinaryOperator::EQ,
  BinaryOperator::NE,
];

pub fn op_of_discr(d: u8) -> Option<BinaryOperator> {
  ALL_OPS.iter().copied().find(|o| (*o as u8) == d)
}

/// Ok(None) = returned None, Ok(Some(v)), Err = panicked
pub fn eval_bin_op(op: u8, v1: i32, v2: i32) -> Result<Option<i32>, String> {
  let op = op_of_discr(op).ok_or("bad op")?;
  std::panic::catch_unwind(|| evaluate_bin_op(op, v1, v2)).map_err(|_| "panic".to_string())
}

/// returns (operator discr, merged const)
pub fn merge_bin(outer: u8, inner_op: u8, inner_c: i32, outer_c: i32) -> Result<Option<(u8, i32)>, String> {
  let outer = op_of_discr(outer).ok_or("bad op")?;
  let inner_op = op_of_discr(inner_op).ok_or("bad op")?;
  std::panic::catch_unwind(|| {
    let inner = BinaryExpression {
      operator: inner_op,
      e1: VariableName { name: samlang_heap::PStr::LOWER_A, type_: INT_32_TYPE },
      e2: inner_c,
    };
    merge_binary_expression(outer, &inner, outer_c).map(|b| (b.operator as u8, b.e2))
  })
  .map_err(|_| "panic".to_string())
}

#[cfg(kani)]
mod proofs {
  use super::*;

  fn any_op() -> BinaryOperator {
    let d: u8 = kani::any();
    kani::assume(d < 16);
    ALL_OPS[d as usize]
  }

  /// wasm.rs instruction semantics, written from the WebAssembly spec
  fn wasm_sem(op: BinaryOperator, a: i32, b: i32) -> Option<i32> {
    Some(match op {
      BinaryOperator::MUL => a.wrapping_mul(b),
      BinaryOperator::DIV => {
        if b == 0 || (a == i32::MIN && b == -1) {
          return None;
        }
        a.wrapping_div(b)
      }
      BinaryOperator::MOD => {
        if b == 0 {
          return None;
        }
        a.wrapping_rem(b)
      }
      BinaryOperator::PLUS => a.wrapping_add(b),
      BinaryOperator::MINUS => a.wrapping_sub(b),
      BinaryOperator::LAND => a & b,
      BinaryOperator::LOR => a | b,
      BinaryOperator::SHL => a.wrapping_shl(b as u32),
      BinaryOperator::SHR => ((a as u32).wrapping_shr(b as u32)) as i32,
      BinaryOperator::XOR => a ^ b,
      BinaryOperator::LT => (a < b) as i32,
      BinaryOperator::LE => (a <= b) as i32,
      BinaryOperator::GT => (a > b) as i32,
      BinaryOperator::GE => (a >= b) as i32,
      BinaryOperator::EQ => (a == b) as i32,
      BinaryOperator::NE => (a != b) as i32,
    })
  }

  /// C02(a)/C03(1) cross-check of the E-M result on an independent front end.
  /// Only operators that source programs can produce (no SHL/SHR/LAND/LOR) and only
  /// non-overflowing + - * (the dev-profile overflow panics are classified dev-only by E-M).
  #[kani::proof]
  fn evaluate_bin_op_matches_wasm() {
    let op = any_op();
    let a: i32 = kani::any();
    let b: i32 = kani::any();
    match op {
      BinaryOperator::SHL | BinaryOperator::SHR => kani::assume(b >= 0 && b < 32),
      BinaryOperator::PLUS => kani::assume(a.checked_add(b).is_some()),
      BinaryOperator::MINUS => kani::assume(a.checked_sub(b).is_some()),
      BinaryOperator::MUL => kani::assume(a.checked_mul(b).is_some()),
      _ => {}
    }
    let r = evaluate_bin_op(op, a, b);
    kani::cover!(r.is_some());
    if let Some(v) = r {
      if let Some(w) = wasm_sem(op, a, b) {
        assert!(v == w);
      }
    }
  }
}
