// Appended (as `pub mod verif_hooks`) to samlang-compiler/src/lib.rs in the scratch copy only.
pub use super::hir_lowering::verif_harness::compile_sources_to_mir_staged;
