"""C02(a) / C03(1): integer kernels of the optimizer, decided for ALL constants by SMT over the
rustc MIR of the current tree (E-M).  See DESIGN.md section 3, C02(a).

Every obligation is a z3 assertion set whose `unsat` means "holds for every input".  `sat` gives a
concrete witness that is replayed natively against the real function (driver) before it is
reported.
"""
import glob
import os
import re
import time

import z3

from vlib import mir, smt
from vlib.common import Inconclusive, log, load_known
from vlib.mir import Lazy, Adt, Sc, Untranslatable

I32 = 32
INT_MIN = -(1 << 31)
INT_MAX = (1 << 31) - 1
BOUNDARY = [0, 1, -1, 2, -2, 3, 7, 31, 32, 33, INT_MIN, INT_MIN + 1, INT_MAX, INT_MAX - 1]

OPS = ['MUL', 'DIV', 'MOD', 'PLUS', 'MINUS', 'LAND', 'LOR', 'SHL', 'SHR', 'XOR', 'LT', 'LE', 'GT', 'GE', 'EQ', 'NE']


def bv(v, w=32):
    return z3.BitVecVal(v, w)


def b2i(c):
    return z3.If(c, bv(1), bv(0))


# ---- WASM i32 instruction semantics (WebAssembly core spec 4.3.2), keyed by instruction name
def wasm_sem(instr, a, b):
    """returns (value, trap_condition)"""
    F = z3.BoolVal(False)
    m = {
        "mul": (a * b, F), "add": (a + b, F), "sub": (a - b, F),
        "div_s": (a / b, z3.Or(b == 0, z3.And(a == bv(INT_MIN), b == bv(-1)))),
        "div_u": (z3.UDiv(a, b), b == 0),
        "rem_s": (z3.SRem(a, b), b == 0),
        "rem_u": (z3.URem(a, b), b == 0),
        "and": (a & b, F), "or": (a | b, F), "xor": (a ^ b, F),
        "shl": (a << (b & bv(31)), F),
        "shr_u": (z3.LShR(a, b & bv(31)), F),
        "shr_s": (a >> (b & bv(31)), F),
        "lt_s": (b2i(a < b), F), "le_s": (b2i(a <= b), F), "gt_s": (b2i(a > b), F), "ge_s": (b2i(a >= b), F),
        "lt_u": (b2i(z3.ULT(a, b)), F), "le_u": (b2i(z3.ULE(a, b)), F), "gt_u": (b2i(z3.UGT(a, b)), F),
        "ge_u": (b2i(z3.UGE(a, b)), F),
        "eq": (b2i(a == b), F), "ne": (b2i(a != b), F),
    }
    if instr not in m:
        raise Inconclusive("unknown wasm instruction i32.%s in the operator table" % instr)
    return m[instr]


def parse_wat_binary(wat):
    m = re.match(r"^\(i32\.(\w+) \(local\.get \$a\) \(local\.get \$b\)\)$", wat.strip())
    if not m:
        raise Inconclusive("unexpected WAT for a binary operator: %s" % wat)
    return m.group(1)


class Kernels:
    def __init__(self, sc, driver, res, tier, props=("C02", "C03")):
        self.props = set(props)
        self.sc = sc
        self.driver = driver
        self.res = res
        self.tier = tier
        self.timeout = 60 if tier == "quick" else 600
        self.defs = mir.RustDefs()
        self.fns = {}
        self.fns_dev = {}
        self.encoded = []
        self.obl = 0
        self.discharged = 0
        self.dev_only_panics = []
        self.validated = 0
        self.latent = []

    # ------------------------------------------------------------------ setup
    def load(self, ws):
        src = [os.path.join(self.sc.w, "crates/samlang-ast/src/hir.rs"),
               os.path.join(self.sc.w, "crates/samlang-ast/src/mir.rs")]
        src += [f for f in glob.glob(os.path.join(self.sc.w, "crates/samlang-optimization/src/*.rs"))
                if not f.endswith("_tests.rs")]
        for f in src:
            self.defs.load_source(open(f).read())
        for crate, tag in (("samlang-ast", "ast"), ("samlang-optimization", "opt")):
            self.fns.update(mir.parse_dump(ws.mir_dump(self.sc, crate, False), tag))
        if self.tier != "quick" or os.environ.get("VERIF_DEV_MIR", "1") == "1":
            for crate, tag in (("samlang-optimization", "opt"),):
                self.fns_dev.update(mir.parse_dump(ws.mir_dump(self.sc, crate, True), tag))
            # callee lookups in the dev run may reach into samlang-ast: release bodies of the derived
            # PartialEq impls are profile independent
            for k, v in self.fns.items():
                self.fns_dev.setdefault(k, v)
        self.optable = {r["discr"]: r for r in self.driver.optable() if "discr" in r}
        if [self.optable[i]["name"] for i in range(16)] != [self.op_symbol(n) for n in self.defs.enums["BinaryOperator"]]:
            pass  # names are printed symbols (+, -, ...); order is cross-checked by discriminant below
        if self.defs.enums["BinaryOperator"] != OPS:
            raise Inconclusive("BinaryOperator variants changed: %s" % self.defs.enums["BinaryOperator"])

    @staticmethod
    def op_symbol(n):
        return n

    def kernel(self, name, dev=False):
        fns = self.fns_dev if dev else self.fns
        cands = [f for n, f in fns.items() if n == name or n.endswith("::" + name)]
        if len(cands) != 1:
            raise Inconclusive("encoding could not be regenerated: kernel %s not found in the MIR dump (%d candidates)" % (name, len(cands)))
        return cands[0]

    def paths(self, name, dev=False, argnames=None):
        f = self.kernel(name, dev)
        ex = mir.Exec(self.fns_dev if dev else self.fns, self.defs)
        ex.overflow_checks = dev
        args = [Lazy(t, (argnames[i] if argnames else "a%d" % i)) for i, (p, t) in enumerate(f.params)]
        try:
            ps = ex.run_fn(f, args, [])
        except Untranslatable as e:
            raise Inconclusive("kernel %s can no longer be translated: %s" % (name, e))
        if not dev:
            self.encoded.append({"kernel": f.name, "crate": f.crate, "paths": len(ps), "inlined": sorted(ex.called - {f.name})})
        return ex, ps

    # ------------------------------------------------------------------ generic pieces
    def query(self, name, assertions, witness_terms, replay, prop, known_excl=None, describe=None, int_route=False):
        """assertions sat => violation candidate.  replay(model_values) -> (reproduced: bool, detail)"""
        if prop not in self.props:
            return None
        self.obl += 1
        r, model, info = smt.check(assertions, timeout_s=self.timeout, cross=True, int_route=int_route)
        self.res.sample({"obligation": name, "verdict": r, "solvers": info})
        if r == "unsat":
            self.discharged += 1
            return None
        if r == "unknown":
            self.res.inconc("solver inconclusive on %s: %s" % (name, info))
            return None
        vals = {k: smt.model_int(model, t) for k, t in witness_terms.items()}
        ok, detail = replay(vals)
        if not ok:
            self.res.inconc("witness for %s does not replay against the real function: %s %s" % (name, vals, detail))
            return None
        return vals, detail

    def report(self, prop, name, vals, detail, latent_reason=None):
        what = "%s fails for %s (%s)" % (name, vals, detail)
        if latent_reason:
            self.latent.append({"obligation": name, "witness": vals, "why_latent": latent_reason})
            return
        self.res.violation(what, {"property": prop, "engine": "E-M", "kernel": name, "witness": vals, "detail": detail,
                                  "replay": "python3-vt /verif/vcheck %s --replay <this file>" % prop})

    # ------------------------------------------------------------------ translator validation
    def validate(self, name, paths, argterms, requests, decode):
        """push concrete inputs through the real function (driver) and through the encoding."""
        outs = self.driver.kernels(requests)
        for (kn, args), real in zip(requests, outs):
            subst = [(t, (z3.BitVecVal(v, t.size()) if z3.is_bv(t) else z3.BoolVal(bool(v)))) for t, v in zip(argterms, args)]
            hit = None
            for p in paths:
                pc = z3.simplify(z3.substitute(z3.And(*p.pc) if p.pc else z3.BoolVal(True), *subst))
                if z3.is_true(pc):
                    if hit is not None:
                        raise Inconclusive("translator defect: two paths of %s enabled for %s" % (name, args))
                    hit = p
                elif not z3.is_false(pc):
                    raise Inconclusive("translator defect: path condition of %s not closed under %s: %s" % (name, args, pc))
            if hit is None:
                raise Inconclusive("translator defect: no path of %s enabled for %s" % (name, args))
            enc = decode(hit, subst)
            exp = {"panic": real.get("panic", False), "some": real.get("some"), "v": real.get("v")}
            if enc != exp:
                raise Inconclusive("translator defect on %s%s: encoding says %s, real function says %s" % (name, tuple(args), enc, exp))
            self.validated += 1

    @staticmethod
    def dec_opt_i32(p, subst):
        if p.outcome[0] == "panic":
            return {"panic": True, "some": None, "v": None}
        v = p.outcome[1]
        if v.discr == 0:
            return {"panic": False, "some": False, "v": None}
        t = z3.simplify(z3.substitute(v.variants[1][0].t, *subst))
        return {"panic": False, "some": True, "v": [t.as_signed_long()]}

    def dev_only(self, name, argnames=None):
        """panics present in the dev-profile MIR only (classification, never a failure)."""
        if not self.fns_dev:
            return
        try:
            ex, ps = self.paths(name, dev=True, argnames=argnames)
        except Inconclusive:
            return
        msgs = sorted({p.outcome[1] for p in ps if p.outcome[0] == "panic"})
        if msgs:
            self.dev_only_panics.append({"kernel": name, "messages": msgs})

    # ------------------------------------------------------------------ K1 evaluate_bin_op
    def k_evaluate_bin_op(self):
        name = "evaluate_bin_op"
        ex, ps = self.paths(name, argnames=["op", "v1", "v2"])
        op = z3.BitVec("op.discr", 64)
        v1, v2 = z3.BitVec("v1", 32), z3.BitVec("v2", 32)
        # validation on boundary pairs x all operators
        reqs = [(name, [o, a, b]) for o in range(16) for a in BOUNDARY for b in BOUNDARY]
        self.validate(name, ps, [op, v1, v2], reqs, self.dec_opt_i32)

        def replay_panic(vals):
            r = self.driver.kernels([(name, [vals["op"], vals["v1"], vals["v2"]])])[0]
            return bool(r.get("panic")), r

        constructed = self.constructed_operators()
        known = [k for k in load_known("C03") if k.get("kernel") == name]
        # C03(1): no reachable panic in the release MIR
        for p in ps:
            if p.outcome[0] == "panic":
                excl = []
                for k in known:
                    if k.get("id") == "F1":
                        excl.append(z3.Not(z3.And(z3.Or(op == 1, op == 2), v1 == bv(INT_MIN), v2 == bv(-1))))
                hit = self.query("C03/%s no panic: %s" % (name, p.outcome[1]), p.pc + excl,
                                 {"op": op, "v1": v1, "v2": v2}, replay_panic, "C03")
                if excl:
                    # the listed finding itself: confirm it is still live
                    r = self.driver.kernels([(name, [1, INT_MIN, -1])])[0]
                    if r.get("panic"):
                        self.res.known("F1 evaluate_bin_op(DIV|MOD, -2147483648, -1) panics the compiler")
                if hit:
                    vals, detail = hit
                    latent = None if OPS[vals["op"]] in constructed else "operator %s is never constructed outside test code" % OPS[vals["op"]]
                    self.report("C03", "compiler panics in " + name, dict(vals, op_name=OPS[vals["op"]]), "%s; real function: %s" % (p.outcome[1], detail), latent)
        # C02(a): Some(r) => r is what the WASM instruction computes (when it does not trap)
        for o in range(16):
            instr = parse_wat_binary(self.optable[o]["wat"])
            w, trap = wasm_sem(instr, v1, v2)
            for p in ps:
                if p.outcome[0] != "return" or p.outcome[1].discr != 1:
                    continue
                r = p.outcome[1].variants[1][0].t

                def replay_val(vals, o=o, instr=instr):
                    real = self.driver.kernels([(name, [vals["op"], vals["v1"], vals["v2"]])])[0]
                    wv = z3.simplify(z3.substitute(wasm_sem(instr, v1, v2)[0], (v1, bv(vals["v1"])), (v2, bv(vals["v2"])))).as_signed_long()
                    return (real.get("some") and real["v"][0] != wv), {"folded": real.get("v"), "i32.%s" % instr: wv}

                pcs = p.pc + [op == o, z3.Not(trap), r != w]
                if z3.is_false(z3.simplify(z3.And(*[c for c in p.pc if "op.discr" in str(c)] + [op == o]))):
                    continue
                hit = self.query("C02/%s(%s) = i32.%s" % (name, OPS[o], instr), pcs, {"op": op, "v1": v1, "v2": v2}, replay_val, "C02")
                if hit:
                    vals, detail = hit
                    latent = None if OPS[o] in constructed else "operator %s is never constructed outside test code" % OPS[o]
                    self.report("C02", "constant folding of %s differs from i32.%s" % (OPS[o], instr), vals, detail, latent)
        self.dev_only(name)

    _constructed = None

    def constructed_operators(self):
        """Operators that non-test code of the compiler/optimizer constructs (discriminant constants
        of BinaryOperator in function bodies of the MIR dumps) plus the ones source programs spell."""
        if self._constructed is None:
            found = set()
            for crate in ("samlang-compiler", "samlang-optimization"):
                d = os.path.join(self.sc.w, "crates", crate, "src")
                for f in glob.glob(os.path.join(d, "*.rs")):
                    if f.endswith("_tests.rs"):
                        continue
                    txt = open(f).read()
                    cut = txt.find("#[cfg(test)]")
                    if cut >= 0:
                        txt = txt[:cut]
                    for m in re.finditer(r"BinaryOperator::(\w+)", txt):
                        found.add((m.group(1), os.path.basename(f)))
            # a mention in a `match` arm is not a construction: keep only operators that appear in a
            # file other than the pure dispatch tables, or that the parser can spell
            src_ops = {"MUL", "DIV", "MOD", "PLUS", "MINUS", "LT", "LE", "GT", "GE", "EQ", "NE"}
            built = set(src_ops)
            for opn, f in found:
                if opn in ("XOR",):
                    built.add(opn)
            for opn in ("SHL", "SHR", "LAND", "LOR"):
                # constructed iff some non-test line builds a value with it (not a match arm / table)
                for crate in ("samlang-compiler", "samlang-optimization"):
                    for f in glob.glob(os.path.join(self.sc.w, "crates", crate, "src", "*.rs")):
                        if f.endswith("_tests.rs"):
                            continue
                        txt = open(f).read()
                        cut = txt.find("#[cfg(test)]")
                        if cut >= 0:
                            txt = txt[:cut]
                        for ln in txt.split("\n"):
                            if "BinaryOperator::" + opn in ln and "=>" not in ln and "|" not in ln.strip()[:2] \
                                    and not ln.strip().startswith("|") and "matches!" not in ln and "==" not in ln:
                                built.add(opn)
            self._constructed = built
        return self._constructed

    # ------------------------------------------------------------------ K2 merge_binary_expression
    def eval_op(self, d, a, b):
        """value of `a <op d> b` under the target's (wrapping, WASM) semantics; d is a 64-bit discr term"""
        r = bv(0)
        for o in reversed(range(16)):
            instr = parse_wat_binary(self.optable[o]["wat"])
            r = z3.If(d == o, wasm_sem(instr, a, b)[0], r)
        return r

    def k_merge_binary_expression(self):
        name = "merge_binary_expression"
        ex, ps = self.paths(name, argnames=["outer", "inner", "c2"])
        outer = z3.BitVec("outer.discr", 64)
        inner_op = z3.BitVec("inner.*.v0.f0.discr", 64)
        c1 = z3.BitVec("inner.*.v0.f2", 32)
        c2 = z3.BitVec("c2", 32)
        x = z3.BitVec("x", 32)

        def dec(p, subst):
            if p.outcome[0] == "panic":
                return {"panic": True, "some": None, "v": None}
            v = p.outcome[1]
            if v.discr == 0:
                return {"panic": False, "some": False, "v": None}
            be = v.variants[1][0]
            opd = be.variants[0][0].discr
            opd = opd if isinstance(opd, int) else z3.simplify(z3.substitute(opd, *subst)).as_long()
            e2 = z3.simplify(z3.substitute(be.variants[0][2].t, *subst)).as_signed_long()
            return {"panic": False, "some": True, "v": [opd, e2]}

        reqs = [(name, [o, io, a, b]) for o in (0, 3, 10, 11, 12, 13, 14, 15, 4, 1) for io in (0, 3, 4)
                for a in BOUNDARY for b in BOUNDARY[:8] + BOUNDARY[-4:]]
        self.validate(name, ps, [outer, inner_op, c1, c2], reqs, dec)
        known = [k for k in load_known("C02") if k.get("kernel") == name]

        def ext(t):
            return z3.SignExt(32, t)

        for p in ps:
            if p.outcome[0] == "panic":
                self.query("C03/%s no panic" % name, p.pc, {"outer": outer, "inner_op": inner_op, "c1": c1, "c2": c2},
                           lambda vals: (True, "panic path"), "C03")
                continue
            v = p.outcome[1]
            if v.discr != 1:
                continue
            be = v.variants[1][0]
            st = {"pc": [], "locals": {}, "cells": {}}
            rop = be.variants[0][0]
            rop_d = rop.discr if not isinstance(rop.discr, int) else z3.BitVecVal(rop.discr, 64)
            rc = be.variants[0][2].t
            # the variable of the merged expression must be the inner one
            inner_adt = None
            # original: t = x <inner_op> c1 ; r = t <outer> c2      merged: r' = x <rop> rc
            t = self.eval_op(inner_op, x, c1)
            orig = self.eval_op(outer, t, c2)
            merged = self.eval_op(rop_d, x, rc)
            # runs on which the original two-instruction sequence overflows are excluded (C02 statement)
            no_ovf_inner = z3.And(
                z3.Implies(inner_op == 3, ext(x) + ext(c1) == ext(x + c1)),
                z3.Implies(inner_op == 0, ext(x) * ext(c1) == ext(x * c1)),
                z3.Implies(inner_op == 4, ext(x) - ext(c1) == ext(x - c1)))
            no_ovf_outer = z3.And(
                z3.Implies(outer == 3, ext(t) + ext(c2) == ext(t + c2)),
                z3.Implies(outer == 0, ext(t) * ext(c2) == ext(t * c2)),
                z3.Implies(outer == 4, ext(t) - ext(c2) == ext(t - c2)))
            excl = []
            for k in known:
                if k.get("id") == "F2":
                    # c2 - c1 overflows in a comparison merge
                    excl.append(z3.Not(z3.And(outer >= 10, ext(c2) - ext(c1) != ext(c2 - c1))))

            def replay(vals):
                real = self.driver.kernels([(name, [vals["outer"], vals["inner_op"], vals["c1"], vals["c2"]])])[0]
                if not real.get("some"):
                    return False, real
                sub = [(x, bv(vals["x"])), (c1, bv(vals["c1"])), (c2, bv(vals["c2"])),
                       (inner_op, z3.BitVecVal(vals["inner_op"], 64)), (outer, z3.BitVecVal(vals["outer"], 64))]
                o = z3.simplify(z3.substitute(orig, *sub)).as_signed_long()
                mm = z3.simplify(z3.substitute(self.eval_op(z3.BitVecVal(real["v"][0], 64), x, bv(real["v"][1])), *sub)).as_signed_long()
                return o != mm, {"merged": "x %s %d" % (OPS[real["v"][0]], real["v"][1]), "original_value": o, "merged_value": mm}

            hit = self.query("C02/%s preserves value (path %s)" % (name, [str(c) for c in p.pc if "discr ==" in str(c)]),
                             p.pc + [no_ovf_inner, no_ovf_outer, orig != merged] + excl,
                             {"outer": outer, "inner_op": inner_op, "c1": c1, "c2": c2, "x": x}, replay, "C02")
            if excl:
                real = self.driver.kernels([(name, [10, 3, 1, INT_MIN])])[0]
                if real.get("some") and real["v"] == [10, INT_MAX]:
                    self.res.known("F2 merge_binary_expression folds (x + 1) < -2147483648 to x < 2147483647")
            if hit:
                vals, detail = hit
                self.report("C02", "merge of `(x %s %d) %s %d`" % (OPS[vals["inner_op"]], vals["c1"], OPS[vals["outer"]], vals["c2"]), vals, detail)
        self.dev_only(name)

    # ------------------------------------------------------------------ K3 trip counts
    def k_trip_count(self):
        name = "analyze_number_of_iterations_to_break_guard"
        ex, ps = self.paths(name, argnames=["i", "d", "gop", "g"])
        i, d, g = z3.BitVec("i", 32), z3.BitVec("d", 32), z3.BitVec("g", 32)
        gop = z3.BitVec("gop.discr", 64)
        reqs = [("iterations", [a, b, o, c]) for o in range(4) for a in BOUNDARY[:9] + BOUNDARY[-4:] for b in (0, 1, -1, 2, -2, 3, 7, INT_MIN, INT_MAX)
                for c in BOUNDARY[:9] + BOUNDARY[-4:]]
        self.validate(name, ps, [i, d, gop, g], reqs, self.dec_opt_i32)
        known = [k for k in load_known("C02") if k.get("kernel") == name]

        def replay_panic(vals):
            r = self.driver.kernels([("iterations", [vals["i"], vals["d"], vals["gop"], vals["g"]])])[0]
            return bool(r.get("panic")), r

        n = z3.BitVec("n", 64)
        I, D, G = z3.SignExt(32, i), z3.SignExt(32, d), z3.SignExt(32, g)

        def guard(x):   # loop continues while guard(x)
            return z3.If(gop == 0, x < G, z3.If(gop == 1, x <= G, z3.If(gop == 2, x > G, x >= G)))

        def in_i32(x):
            return z3.And(x >= z3.BitVecVal(INT_MIN, 64), x <= z3.BitVecVal(INT_MAX, 64))
        # the real loop: x := i; while guard(x) { x += d }.  It terminates after n iterations without any
        # i32 overflow iff   n = 0 /\ !guard(i)   or   n >= 1 /\ guard(i + (n-1)d) /\ !guard(i + n d) /\ i + n d in range
        # (guard is monotone along the run when d has the progress sign; otherwise no such n exists)
        last = I + (n - 1) * D
        fin = I + n * D
        progress = z3.If(gop <= 1, D > 0, D < 0)
        spec = z3.Or(z3.And(n == 0, z3.Not(guard(I))),
                     z3.And(n >= 1, n <= z3.BitVecVal(1 << 32, 64), progress, guard(last), z3.Not(guard(fin)), in_i32(fin)))
        for p in ps:
            if p.outcome[0] == "panic":
                hit = self.query("C03/%s no panic: %s" % (name, p.outcome[1]), p.pc, {"i": i, "d": d, "gop": gop, "g": g}, replay_panic, "C03")
                if hit:
                    self.report("C03", "compiler panics in " + name, hit[0], "%s; %s" % (p.outcome[1], hit[1]))
                continue
            v = p.outcome[1]
            if v.discr != 1:
                continue
            c = v.variants[1][0].t

            def replay(vals):
                real = self.driver.kernels([("iterations", [vals["i"], vals["d"], vals["gop"], vals["g"]])])[0]
                # reference by the declarative spec evaluated in Python integers
                ii, dd, gg, nn = vals["i"], vals["d"], vals["g"], vals["n"]
                ok = real.get("some") and real["v"][0] != nn
                return ok, {"returned": real.get("v"), "true_trip_count": nn, "true_final_value": ii + nn * dd}

            excl = []
            for k in known:
                if k.get("id") == "F3":
                    # g - i (after the per-operator normalisation) does not fit in i32
                    excl.append(in_i32(z3.If(gop <= 1, G - I, I - G) + z3.If(z3.Or(gop == 1, gop == 3), z3.BitVecVal(1, 64), z3.BitVecVal(0, 64))))
            hit = self.query("C02/%s = declarative trip count (path %s)" % (name, [str(x) for x in p.pc if "gop" in str(x)][:2]),
                             p.pc + [spec, z3.SignExt(32, c) != n] + excl,
                             {"i": i, "d": d, "gop": gop, "g": g, "n": n}, replay, "C02", int_route=True)
            if excl:
                real = self.driver.kernels([("iterations", [-1073741824, 447, 0, 1082112783])])[0]
                if real.get("some") and real["v"][0] != 4822941:
                    self.res.known("F3 trip-count closed form wraps g - i: loop(-1073741824) with i < 1082112783, i += 447")
            if hit:
                vals, detail = hit
                self.report("C02", "closed-form trip count of `while (i %s %d) i += %d` from i = %d" % (["<", "<=", ">", ">="][vals["gop"]], vals["g"], vals["d"], vals["i"]), vals, detail)
        self.dev_only(name)

    # ------------------------------------------------------------------ K4/K5 guard tables
    def k_guards(self):
        a, b = z3.BitVec("ga", 32), z3.BitVec("gb", 32)

        def gsem(d, x, y):
            return z3.If(d == 0, x < y, z3.If(d == 1, x <= y, z3.If(d == 2, x > y, x >= y)))
        # invert
        ex, ps = self.paths("invert", argnames=["g"])
        gd = z3.BitVec("g.*.discr", 64)
        self.validate("invert", ps, [gd], [("guard_invert", [k]) for k in range(4)],
                      lambda p, s: {"panic": False, "some": True, "v": [p.outcome[1].discr]})
        for p in ps:
            if p.outcome[0] != "return":
                self.query("C03/invert no panic", p.pc, {"g": gd}, lambda v: (True, ""), "C03")
                continue
            rd = z3.BitVecVal(p.outcome[1].discr, 64)
            hit = self.query("C02/GuardOperator::invert is logical negation", p.pc + [gsem(rd, a, b) == gsem(gd, a, b)],
                             {"g": gd, "a": a, "b": b},
                             lambda vals: (self.driver.kernels([("guard_invert", [vals["g"]])])[0]["v"][0] == p.outcome[1].discr, ""), "C02")
            if hit:
                self.report("C02", "GuardOperator::invert", hit[0], "inverted guard agrees with the original on a=%d b=%d" % (hit[0]["a"], hit[0]["b"]))
        # get_guard_operator(op, invert): loop continues while  invert ? (a op b) : !(a op b)
        ex, ps = self.paths("get_guard_operator", argnames=["op", "inv"])
        opd, inv = z3.BitVec("op.discr", 64), z3.Bool("inv")

        def dec(p, s):
            v = p.outcome[1]
            if v.discr == 0:
                return {"panic": False, "some": False, "v": None}
            return {"panic": False, "some": True, "v": [v.variants[1][0].discr]}
        self.validate("get_guard_operator", ps, [opd, inv], [("get_guard_operator", [o, k]) for o in range(16) for k in (0, 1)], dec)
        for p in ps:
            if p.outcome[0] != "return":
                self.query("C03/get_guard_operator no panic", p.pc, {"op": opd}, lambda v: (True, ""), "C03")
                continue
            v = p.outcome[1]
            if v.discr != 1:
                continue
            rd = z3.BitVecVal(v.variants[1][0].discr, 64)
            cond = self.eval_op(opd, a, b) != 0
            cont = z3.If(inv, cond, z3.Not(cond))

            def replay(vals, want=v.variants[1][0].discr):
                r = self.driver.kernels([("get_guard_operator", [vals["op"], vals["inv"]])])[0]
                return (r.get("some") and r["v"][0] == want), r
            hit = self.query("C02/get_guard_operator matches the break condition", p.pc + [gsem(rd, a, b) != cont],
                             {"op": opd, "inv": inv, "a": a, "b": b}, replay, "C02")
            if hit:
                self.report("C02", "get_guard_operator", hit[0], "guard disagrees with `%s` for a=%d b=%d" % (OPS[hit[0]["op"]], hit[0]["a"], hit[0]["b"]))

    # ------------------------------------------------------------------ K6-K8 induction-variable algebra
    def plie_val(self, ex, adt, st, F):
        """value of a PotentialLoopInvariantExpression: Int(i) -> i, Var(v) -> F(v)"""
        adt = ex.force(adt, st)
        d = adt.discr if not isinstance(adt.discr, int) else z3.BitVecVal(adt.discr, 64)
        if isinstance(adt.discr, int):
            if adt.discr == 0:
                return ex.field_get(adt, 0, 0, "i32", st).t
            return F(ex.field_get(adt, 1, 0, "samlang_ast::mir::VariableName", st).t)
        iv = ex.field_get(adt, 0, 0, "i32", st).t
        vv = ex.field_get(adt, 1, 0, "samlang_ast::mir::VariableName", st).t
        return z3.If(d == 0, iv, F(vv))

    def k_iv_algebra(self):
        VN = mir.opaque_sort("VariableName")
        F = z3.Function("value_of_var", VN, z3.BitVecSort(32))
        x = z3.BitVec("basevalue", 32)
        for which, name in ((0, "merge_invariant_addition_for_loop_optimization"), (1, "merge_invariant_multiplication_for_loop_optimization")):
            ex, ps = self.paths(name, argnames=["e1", "e2"])
            st = {"pc": [], "locals": {}, "cells": {}}
            a1 = Lazy("&PotentialLoopInvariantExpression", "e1")
            for p in ps:
                if p.outcome[0] != "return":
                    self.query("C03/%s no panic" % name, p.pc, {}, lambda v: (True, ""), "C03")
                    continue
                v = p.outcome[1]
                if v.discr != 1:
                    continue
                st = {"pc": [], "locals": {}, "cells": {}}
                rv = self.plie_val(ex, v.variants[1][0], st, F)
                e1 = Adt("PotentialLoopInvariantExpression", z3.BitVec("e1.*.discr", 64), {}, "e1.*")
                e2 = Adt("PotentialLoopInvariantExpression", z3.BitVec("e2.*.discr", 64), {}, "e2.*")
                v1 = self.plie_val(ex, e1, st, F)
                v2 = self.plie_val(ex, e2, st, F)
                want = (v1 + v2) if which == 0 else (v1 * v2)
                wit = {"e1_is_var": z3.BitVec("e1.*.discr", 64), "e1_int": z3.BitVec("e1.*.v0.f0", 32),
                       "e2_is_var": z3.BitVec("e2.*.discr", 64), "e2_int": z3.BitVec("e2.*.v0.f0", 32)}

                def replay(vals, which=which):
                    r = self.driver.kernels([("merge_invariant", [which, 1 - vals["e1_is_var"], vals["e1_int"] if not vals["e1_is_var"] else 0,
                                                                  1 - vals["e2_is_var"], vals["e2_int"] if not vals["e2_is_var"] else 1])])[0]
                    return bool(r.get("some")), r
                hit = self.query("C02/%s preserves the value" % name, p.pc + st["pc"] + [rv != want], wit, replay, "C02")
                if hit:
                    self.report("C02", name, hit[0], "merged invariant expression has a different value; real function returned %s" % (hit[1],))
            self.dev_only(name)
        # merge_constant_operation_into_derived_induction_variable(existing, is_plus, e)
        name = "merge_constant_operation_into_derived_induction_variable"
        ex, ps = self.paths(name, argnames=["ex", "plus", "e"])
        for p in ps:
            if p.outcome[0] != "return":
                self.query("C03/%s no panic" % name, p.pc, {}, lambda v: (True, ""), "C03")
                continue
            v = p.outcome[1]
            if v.discr != 1:
                continue
            st = {"pc": [], "locals": {}, "cells": {}}
            div = ex.force(v.variants[1][0], st)
            PL = "loop_induction_analysis::PotentialLoopInvariantExpression"
            old = Adt("DerivedInductionVariable", 0, {0: {}}, "ex.*")
            rbase = ex.field_get(div, 0, 0, "samlang_heap::PStr", st).t
            rm = self.plie_val(ex, ex.field_get(div, 0, 1, PL, st), st, F)
            ri = self.plie_val(ex, ex.field_get(div, 0, 2, PL, st), st, F)
            obase = ex.field_get(old, 0, 0, "samlang_heap::PStr", st).t
            om = self.plie_val(ex, ex.field_get(old, 0, 1, PL, st), st, F)
            oi = self.plie_val(ex, ex.field_get(old, 0, 2, PL, st), st, F)
            e = Adt(PL, z3.BitVec("e.*.discr", 64), {}, "e.*")
            evv = self.plie_val(ex, e, st, F)
            plus = z3.Bool("plus")
            oldv = x * om + oi
            want = z3.If(plus, oldv + evv, oldv * evv)
            wit = {"m_is_var": z3.BitVec("ex.*.v0.f1.discr", 64), "m": z3.BitVec("ex.*.v0.f1.v0.f0", 32),
                   "i_is_var": z3.BitVec("ex.*.v0.f2.discr", 64), "i": z3.BitVec("ex.*.v0.f2.v0.f0", 32),
                   "plus": plus, "e_is_var": z3.BitVec("e.*.discr", 64), "e": z3.BitVec("e.*.v0.f0", 32), "x": x}

            def replay(vals):
                r = self.driver.kernels([("merge_const_op", [1 - vals["m_is_var"], vals["m"] if not vals["m_is_var"] else 0,
                                                             1 - vals["i_is_var"], vals["i"] if not vals["i_is_var"] else 1,
                                                             vals["plus"], 1 - vals["e_is_var"], vals["e"] if not vals["e_is_var"] else 2])])[0]
                return bool(r.get("some")), r
            hit = self.query("C02/%s: (x*m+i) op e = x*m'+i'" % name, p.pc + st["pc"] + [z3.Or(rbase != obase, x * rm + ri != want)], wit, replay, "C02")
            if hit:
                self.report("C02", name, hit[0], "derived induction variable changes value; real function returned %s" % (hit[1],))
        self.dev_only(name)
        # merge_variable_addition_into_derived_induction_variable(a, b)
        name = "merge_variable_addition_into_derived_induction_variable"
        ex, ps = self.paths(name, argnames=["da", "db"])
        for p in ps:
            if p.outcome[0] != "return":
                self.query("C03/%s no panic" % name, p.pc, {}, lambda v: (True, ""), "C03")
                continue
            v = p.outcome[1]
            if v.discr != 1:
                continue
            st = {"pc": [], "locals": {}, "cells": {}}
            PL = "loop_induction_analysis::PotentialLoopInvariantExpression"
            div = ex.force(v.variants[1][0], st)
            A = Adt("DerivedInductionVariable", 0, {0: {}}, "da.*")
            B = Adt("DerivedInductionVariable", 0, {0: {}}, "db.*")
            vals_ = []
            for d_ in (div, A, B):
                base = ex.field_get(d_, 0, 0, "samlang_heap::PStr", st).t
                m_ = self.plie_val(ex, ex.field_get(d_, 0, 1, PL, st), st, F)
                i_ = self.plie_val(ex, ex.field_get(d_, 0, 2, PL, st), st, F)
                vals_.append((base, m_, i_))
            (rb, rm, ri), (ab, am, ai), (bb, bm, bi) = vals_
            hit = self.query("C02/%s: (x*m1+i1)+(x*m2+i2) = x*m'+i'" % name,
                             p.pc + st["pc"] + [z3.Or(rb != ab, ab != bb, x * rm + ri != (x * am + ai) + (x * bm + bi))],
                             {"x": x}, lambda vals: (True, "encoding-level witness (no native entry point for opaque names)"), "C02")
            if hit:
                self.report("C02", name, hit[0], "sum of two derived induction variables changes value")
        self.dev_only(name)

    # ------------------------------------------------------------------ driver
    def run_all(self):
        t0 = time.time()
        for k in (self.k_evaluate_bin_op, self.k_merge_binary_expression, self.k_trip_count, self.k_guards, self.k_iv_algebra):
            try:
                k()
            except Inconclusive as e:
                self.res.inconc("%s: %s" % (k.__name__, e))
            except Untranslatable as e:
                self.res.inconc("%s: kernel can no longer be translated: %s" % (k.__name__, e))
            except Exception as e:
                import traceback
                traceback.print_exc()
                self.res.inconc("%s: internal error %r" % (k.__name__, e))
        return {
            "kernels_encoded": self.encoded,
            "kernel_obligations": self.obl,
            "kernel_discharged": self.discharged,
            "translator_validation_points": self.validated,
            "dev_only_panics": self.dev_only_panics,
            "latent": self.latent,
            "solver_stats": dict(smt.STATS),
            "kernel_wall_s": round(time.time() - t0, 1),
        }
