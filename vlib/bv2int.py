"""Exact translation of a bit-vector query into integer arithmetic, with wrap-around elimination
by interval analysis ("int-blasting" that keeps the mod-2^k semantics, cf. cvc5
--solve-bv-as-int).  Used for kernels whose proof needs multiplication/division reasoning that
bit-blasting does not finish (the loop trip-count closed form).

Every BV term t of width w is mapped to an Int term S denoting its *signed* value together with
a sound interval [lo, hi].  An operation whose exact result provably stays inside the signed
range of its width needs no `mod`; otherwise the result is wrapped explicitly, so the translation
is exact in all cases.  Truncating division is expressed by fresh quotient/remainder variables
and the division lemma.  Unsupported operators (bitwise and/or/xor, shifts by variables, ...)
raise Unsupported: the caller then stays with the bit-vector route.
"""
import z3


class Unsupported(Exception):
    pass


class Tr:
    def __init__(self):
        self.cache = {}
        self.side = []     # side constraints (variable ranges, division lemmas)
        self.n = 0
        self.vars = {}
        self.bounds = {}   # BV variable name -> (lo, hi) learnt from top-level comparisons with constants

    def fresh(self, base):
        self.n += 1
        return z3.Int("%s!i%d" % (base, self.n))

    @staticmethod
    def rng(w):
        return -(1 << (w - 1)), (1 << (w - 1)) - 1

    def wrap(self, R, lo, hi, w):
        """signed wrap of exact integer R (interval [lo,hi]) to width w"""
        smin, smax = self.rng(w)
        if lo >= smin and hi <= smax:
            return R, lo, hi
        m = 1 << w
        # if the interval spans less than one modulus, wrap with a single ite chain instead of mod
        if hi - lo < m and lo >= smin - m and hi <= smax + m:
            S = z3.If(R > smax, R - m, z3.If(R < smin, R + m, R))
            return S, smin, smax
        S = ((R - smin) % m) + smin
        return S, smin, smax

    def unsigned(self, S, lo, hi, w):
        if lo >= 0:
            return S, lo, hi
        m = 1 << w
        if hi < 0:
            return S + m, lo + m, hi + m
        return z3.If(S < 0, S + m, S), 0, m - 1

    def bv(self, t):
        """-> (Int term of the signed value, lo, hi)"""
        key = t.get_id()
        if key in self.cache:
            return self.cache[key]
        r = self._bv(t)
        self.cache[key] = r
        return r

    def _bv(self, t):
        w = t.size()
        smin, smax = self.rng(w)
        k = t.decl().kind()
        if z3.is_bv_value(t):
            v = t.as_signed_long()
            return z3.IntVal(v), v, v
        if z3.is_const(t) and k == z3.Z3_OP_UNINTERPRETED:
            name = str(t)
            if name not in self.vars:
                v = z3.Int(name + "!int")
                self.vars[name] = v
                self.side += [v >= smin, v <= smax]
            lo, hi = self.bounds.get(name, (smin, smax))
            return self.vars[name], max(lo, smin), min(hi, smax)
        ch = t.children()
        if k == z3.Z3_OP_BADD:
            S, lo, hi = self.bv(ch[0])
            for c in ch[1:]:
                B, lb, hb = self.bv(c)
                S, lo, hi = S + B, lo + lb, hi + hb
            return self.wrap(S, lo, hi, w)
        if k == z3.Z3_OP_BSUB:
            S, lo, hi = self.bv(ch[0])
            for c in ch[1:]:
                B, lb, hb = self.bv(c)
                S, lo, hi = S - B, lo - hb, hi - lb
            return self.wrap(S, lo, hi, w)
        if k == z3.Z3_OP_BNEG:
            A, la, ha = self.bv(ch[0])
            return self.wrap(-A, -ha, -la, w)
        if k == z3.Z3_OP_BMUL:
            S, lo, hi = self.bv(ch[0])
            for c in ch[1:]:
                B, lb, hb = self.bv(c)
                cands = [lo * lb, lo * hb, hi * lb, hi * hb]
                S, lo, hi = S * B, min(cands), max(cands)
            return self.wrap(S, lo, hi, w)
        if k == z3.Z3_OP_SIGN_EXT:
            return self.bv(ch[0])
        if k == z3.Z3_OP_ZERO_EXT:
            A, la, ha = self.bv(ch[0])
            return self.unsigned(A, la, ha, ch[0].size())
        if k == z3.Z3_OP_EXTRACT:
            hi_, lo_ = t.params()
            A, la, ha = self.bv(ch[0])
            if lo_ == 0:
                return self.wrap(A, la, ha, w)
            U, lu, hu = self.unsigned(A, la, ha, ch[0].size())
            R = (U / (1 << lo_)) % (1 << w)
            return self.wrap(R, 0, (1 << w) - 1, w)
        if k == z3.Z3_OP_CONCAT:
            # value = sum of unsigned parts shifted; then reinterpret as signed at the full width
            R, lo, hi = z3.IntVal(0), 0, 0
            for c in ch:
                wc = c.size()
                A, la, ha = self.bv(c)
                U, lu, hu = self.unsigned(A, la, ha, wc)
                R, lo, hi = R * (1 << wc) + U, lo * (1 << wc) + lu, hi * (1 << wc) + hu
            return self.wrap(R, lo, hi, w)
        if k == z3.Z3_OP_ITE:
            c = self.bool(ch[0])
            A, la, ha = self.bv(ch[1])
            B, lb, hb = self.bv(ch[2])
            return z3.If(c, A, B), min(la, lb), max(ha, hb)
        if k in (z3.Z3_OP_BSDIV, z3.Z3_OP_BSDIV_I, z3.Z3_OP_BSREM, z3.Z3_OP_BSREM_I):
            A, la, ha = self.bv(ch[0])
            B, lb, hb = self.bv(ch[1])
            dkey = ("divrem", ch[0].get_id(), ch[1].get_id())
            if dkey in self.cache:
                q, r = self.cache[dkey]
                m = max(abs(la), abs(ha))
                if k in (z3.Z3_OP_BSDIV, z3.Z3_OP_BSDIV_I):
                    return self.wrap(q, -m - 1, m + 1, w)
                return r, max(-m, smin), min(m, smax)
            q = self.fresh("q")
            r = self.fresh("r")
            self.cache[dkey] = (q, r)
            absB = z3.If(B < 0, -B, B)
            absr = z3.If(r < 0, -r, r)
            # truncating division, B != 0
            lemma = z3.And(A == q * B + r, absr < absB, z3.Or(r == 0, (r < 0) == (A < 0)))
            # SMT-LIB: bvsdiv x 0 = (x >= 0 ? -1 : 1),  bvsrem x 0 = x
            zero = z3.And(q == z3.If(A >= 0, z3.IntVal(-1), z3.IntVal(1)), r == A)
            self.side.append(z3.If(B == 0, zero, lemma))
            absA = z3.If(A < 0, -A, A)
            absq = z3.If(q < 0, -q, q)
            # redundant but helpful facts about truncating division
            self.side.append(z3.Implies(B != 0, z3.And(absq <= absA,
                                                       z3.Implies(z3.And(A >= 0, B > 0), z3.And(q >= 0, r >= 0)),
                                                       z3.Implies(z3.And(A <= 0, B > 0), z3.And(q <= 0, r <= 0)),
                                                       z3.Implies(z3.And(A >= 0, B < 0), z3.And(q <= 0, r >= 0)),
                                                       z3.Implies(z3.And(A <= 0, B < 0), z3.And(q >= 0, r <= 0)))))
            m = max(abs(la), abs(ha))
            self.side += [q >= -m - 1, q <= m + 1, r >= -m, r <= m]
            if k in (z3.Z3_OP_BSDIV, z3.Z3_OP_BSDIV_I):
                return self.wrap(q, -m - 1, m + 1, w)
            return r, max(-m, smin), min(m, smax)
        raise Unsupported("bit-vector operator %s" % t.decl().name())

    def bool(self, f):
        key = ("b", f.get_id())
        if key in self.cache:
            return self.cache[key]
        r = self._bool(f)
        self.cache[key] = r
        return r

    def _bool(self, f):
        k = f.decl().kind()
        ch = f.children()
        if z3.is_true(f) or z3.is_false(f):
            return f
        if k == z3.Z3_OP_AND:
            return z3.And(*[self.bool(c) for c in ch])
        if k == z3.Z3_OP_OR:
            return z3.Or(*[self.bool(c) for c in ch])
        if k == z3.Z3_OP_NOT:
            return z3.Not(self.bool(ch[0]))
        if k == z3.Z3_OP_IMPLIES:
            return z3.Implies(self.bool(ch[0]), self.bool(ch[1]))
        if k == z3.Z3_OP_XOR:
            return z3.Xor(self.bool(ch[0]), self.bool(ch[1]))
        if k == z3.Z3_OP_ITE:
            return z3.If(self.bool(ch[0]), self.bool(ch[1]), self.bool(ch[2]))
        if k in (z3.Z3_OP_EQ, z3.Z3_OP_DISTINCT):
            if z3.is_bv(ch[0]):
                A, _, _ = self.bv(ch[0])
                B, _, _ = self.bv(ch[1])
                return (A == B) if k == z3.Z3_OP_EQ else (A != B)
            if z3.is_bool(ch[0]):
                e = self.bool(ch[0]) == self.bool(ch[1])
                return e if k == z3.Z3_OP_EQ else z3.Not(e)
            raise Unsupported("equality over sort %s" % ch[0].sort())
        if k in (z3.Z3_OP_SLT, z3.Z3_OP_SLEQ, z3.Z3_OP_SGT, z3.Z3_OP_SGEQ):
            A, _, _ = self.bv(ch[0])
            B, _, _ = self.bv(ch[1])
            return {z3.Z3_OP_SLT: A < B, z3.Z3_OP_SLEQ: A <= B, z3.Z3_OP_SGT: A > B, z3.Z3_OP_SGEQ: A >= B}[k]
        if k in (z3.Z3_OP_ULT, z3.Z3_OP_ULEQ, z3.Z3_OP_UGT, z3.Z3_OP_UGEQ):
            A, la, ha = self.bv(ch[0])
            B, lb, hb = self.bv(ch[1])
            A, _, _ = self.unsigned(A, la, ha, ch[0].size())
            B, _, _ = self.unsigned(B, lb, hb, ch[1].size())
            return {z3.Z3_OP_ULT: A < B, z3.Z3_OP_ULEQ: A <= B, z3.Z3_OP_UGT: A > B, z3.Z3_OP_UGEQ: A >= B}[k]
        if z3.is_const(f) and k == z3.Z3_OP_UNINTERPRETED:
            return f
        raise Unsupported("boolean operator %s" % f.decl().name())


def _learn_bounds(tr, assertions):
    """top-level conjuncts `x <s c` / `x <=s c` / ... with x a BV variable and c a numeral"""
    todo = list(assertions)
    while todo:
        f = todo.pop()
        k = f.decl().kind()
        if k == z3.Z3_OP_AND:
            todo += f.children()
            continue
        if k in (z3.Z3_OP_SLT, z3.Z3_OP_SLEQ, z3.Z3_OP_SGT, z3.Z3_OP_SGEQ):
            a, b = f.children()
            flip = False
            if z3.is_bv_value(a) and not z3.is_bv_value(b):
                a, b, flip = b, a, True
            if not (z3.is_const(a) and a.decl().kind() == z3.Z3_OP_UNINTERPRETED and z3.is_bv_value(b)):
                continue
            c = b.as_signed_long()
            kk = k
            if flip:
                kk = {z3.Z3_OP_SLT: z3.Z3_OP_SGT, z3.Z3_OP_SLEQ: z3.Z3_OP_SGEQ, z3.Z3_OP_SGT: z3.Z3_OP_SLT, z3.Z3_OP_SGEQ: z3.Z3_OP_SLEQ}[k]
            w = a.size()
            lo, hi = tr.bounds.get(str(a), Tr.rng(w))
            if kk == z3.Z3_OP_SLT:
                hi = min(hi, c - 1)
            elif kk == z3.Z3_OP_SLEQ:
                hi = min(hi, c)
            elif kk == z3.Z3_OP_SGT:
                lo = max(lo, c + 1)
            else:
                lo = max(lo, c)
            tr.bounds[str(a)] = (lo, hi)


def translate(assertions):
    tr = Tr()
    _learn_bounds(tr, assertions)
    out = [tr.bool(a) for a in assertions]
    return tr.side + out, tr
