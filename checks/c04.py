"""C04: TypeScript vs WebAssembly back end.

Part 1 (operators): for every BinaryOperator the TypeScript text the real printer emits for
`let r = a <op> b` (driver `optable`, read from the code of the current tree) is parsed into a tiny
JS expression and given ECMAScript number semantics over mathematical integers; the WAT text the
real printer emits gives the WASM instruction.  One SMT query per operator asks for i32 operands on
which the two disagree, excluding the runs the property excludes (i32 overflow of + - *, division
or remainder by zero, INT_MIN / -1).
"""
import re

import z3

from vlib import smt
from vlib.common import Inconclusive, load_known
from checks.kernels import wasm_sem, parse_wat_binary, OPS

INT_MIN = -(1 << 31)
INT_MAX = (1 << 31) - 1


def s2i(bv):
    """signed value of a 32-bit vector as a mathematical integer"""
    return z3.BV2Int(bv, is_signed=True)


def to_int32(x):
    """ECMAScript ToInt32 of a mathematical integer"""
    m = x % (1 << 32)
    return z3.If(m >= (1 << 31), m - (1 << 32), m)


def to_uint32(x):
    return x % (1 << 32)


def js_floor_div(a, b):
    """Math.floor(a / b) for integers a, b (b != 0): z3's integer `/` rounds towards -inf for b > 0 and towards
    +inf for b < 0 (remainder is always non-negative)"""
    return z3.If(b > 0, a / b, (-a) / (-b))


def js_trunc_div(a, b):
    q = js_floor_div(z3.If(a >= 0, a, -a), z3.If(b >= 0, b, -b))
    return z3.If((a >= 0) == (b >= 0), q, -q)


def js_binary(sym, a, b, A, B):
    """value (mathematical integer) of the JS expression `a sym b` on int32-valued numbers; A, B are the bit-vectors"""
    if sym == "+":
        return a + b
    if sym == "-":
        return a - b
    if sym == "*":
        return a * b
    if sym == "%":
        return a - b * js_trunc_div(a, b)
    if sym == "&":
        return s2i(A & B)
    if sym == "|":
        return s2i(A | B)
    if sym == "^":
        return s2i(A ^ B)
    if sym == "<<":
        return s2i(A << (B & z3.BitVecVal(31, 32)))
    if sym == ">>":
        return s2i(A >> (B & z3.BitVecVal(31, 32)))
    if sym == ">>>":
        return z3.BV2Int(z3.LShR(A, B & z3.BitVecVal(31, 32)), is_signed=False)   # unsigned result
    cmp = {"<": a < b, "<=": a <= b, ">": a > b, ">=": a >= b, "==": a == b, "===": a == b, "!=": a != b, "!==": a != b}
    if sym in cmp:
        return ("bool", cmp[sym])
    raise Inconclusive("unknown JS operator `%s` in the emitted TypeScript" % sym)


def parse_ts(ts):
    """`let r = <expr>;` with <expr> one of: a OP b | Math.floor(a OP b) | Number(a OP b)"""
    m = re.match(r"^\s*let r = (.*);\s*$", ts.strip())
    if not m:
        raise Inconclusive("unexpected TypeScript for a binary statement: %r" % ts)
    e = m.group(1).strip()
    wrap = None
    mm = re.match(r"^(Math\.floor|Math\.trunc|Number)\((.*)\)$", e)
    if mm:
        wrap, e = mm.group(1), mm.group(2).strip()
    mm = re.match(r"^\(?\s*a (\S+) b\s*\)?(?: \| 0)?$", e)
    if not mm:
        raise Inconclusive("unexpected TypeScript operator template: %r" % ts)
    return wrap, mm.group(1), e.endswith("| 0")


# operators decided over bit-vectors.  `%`: ECMAScript's remainder takes the sign of the dividend and
# |r| < |d| -- that is exactly SMT-LIB's bvsrem on the int32 operands (b == 0 is excluded).
BITWISE = {"&", "|", "^", "<<", ">>", ">>>", "%"}


def run_ops(res, tier, drv, constructed):
    from vlib import bv2int
    table = {r["discr"]: r for r in drv.optable() if "discr" in r}
    A, B = z3.BitVec("a", 32), z3.BitVec("b", 32)
    known = load_known("C04")
    obligations = discharged = 0
    rows = []
    for o in range(16):
        name = OPS[o]
        instr = parse_wat_binary(table[o]["wat"])
        wasm_val, trap = wasm_sem(instr, A, B)
        wrap, sym, or0 = parse_ts(table[o]["ts"])
        excl_known = []
        if sym in BITWISE:
            # both sides are functions of the two 32-bit patterns: decided over bit-vectors.  JS bitwise operators
            # apply ToInt32 and yield an int32, except `>>>` which yields the *unsigned* value.
            amt = B & z3.BitVecVal(31, 32)
            jsbv = {"&": A & B, "|": A | B, "^": A ^ B, "<<": A << amt, ">>": A >> amt, ">>>": z3.LShR(A, amt), "%": z3.SRem(A, B)}[sym]
            differs = jsbv != wasm_val
            if sym == ">>>":
                # unsigned JS number vs signed i32: different numbers exactly when the top bit is set
                differs = z3.Or(differs, wasm_val < 0)
            assertions = [z3.Not(trap), differs]
            js_of = lambda m: (m.eval(jsbv, model_completion=True).as_long() if sym == ">>>" else m.eval(jsbv, model_completion=True).as_signed_long())
        else:
            tr = bv2int.Tr()
            a, _, _ = tr.bv(A)
            b, _, _ = tr.bv(B)
            W, _, _ = tr.bv(wasm_val)
            T = tr.bool(trap)
            if sym == "/":
                if wrap == "Math.floor":
                    js = js_floor_div(a, b)
                elif wrap == "Math.trunc" or or0:
                    js = js_trunc_div(a, b)
                else:
                    raise Inconclusive("division emitted without rounding: %r" % table[o]["ts"])
            else:
                js = js_binary(sym, a, b, A, B)
                if isinstance(js, tuple):
                    js = z3.If(js[1], z3.IntVal(1), z3.IntVal(0))
                    if wrap != "Number":
                        # a JS boolean where WASM has 0/1: same truthiness required
                        pass
                elif or0:
                    js = to_int32(js)
            differs = js != W
            excluded = [z3.Not(T)]
            if name in ("PLUS", "MINUS", "MUL"):
                exact = {"PLUS": a + b, "MINUS": a - b, "MUL": a * b}[name]
                excluded.append(z3.And(exact >= INT_MIN, exact <= INT_MAX))
            for k in known:
                if k.get("operator") == name and k.get("id") == "F4":
                    r_ = a - b * js_trunc_div(a, b)
                    excl_known.append(z3.Not(z3.And(r_ != 0, (a < 0) != (b < 0))))
            assertions = tr.side + excluded + excl_known + [differs]
            js_of = lambda m, js=js: m.eval(js, model_completion=True).as_long()
            Aint, Bint = a, b
        obligations += 1
        s_ = z3.Solver()
        s_.set("timeout", (60 if tier == "quick" else 600) * 1000)
        s_.add(*assertions)
        rr = s_.check()
        r = "sat" if rr == z3.sat else ("unsat" if rr == z3.unsat else "unknown")
        smt.STATS["queries"] += 1
        smt.STATS[r] += 1
        row = {"operator": name, "ts": table[o]["ts"].strip(), "wat": table[o]["wat"], "verdict": r}
        if excl_known:
            row["known_finding_excluded"] = "F4"
            if replay_concrete(sym, wrap, or0, instr, -7, 2):
                res.known("F4 TS `Math.floor(a / b)` vs WASM `i32.div_s`: -7 / 2 is -4 in TypeScript and -3 in WebAssembly")
        if r == "unsat":
            discharged += 1
        elif r == "sat":
            m = s_.model()
            if sym in BITWISE:
                av, bv_ = smt.model_int(m, A), smt.model_int(m, B)
            else:
                av, bv_ = m.eval(Aint, model_completion=True).as_long(), m.eval(Bint, model_completion=True).as_long()
            row.update({"a": av, "b": bv_, "ts_value": js_of(m)})
            if not replay_concrete(sym, wrap, or0, instr, av, bv_):
                res.inconc("operator %s: witness a=%d b=%d does not replay concretely" % (name, av, bv_))
            elif name not in constructed:
                row["latent"] = "operator is never constructed outside test code"
            else:
                res.violation("TS and WASM disagree on `%d %s %d`" % (av, sym, bv_),
                              {"property": "C04", "operator": name, "a": av, "b": bv_, "ts": table[o]["ts"], "wat": table[o]["wat"],
                               "ts_value": row["ts_value"]})
        else:
            res.inconc("solver inconclusive on operator %s" % name)
        rows.append(row)
        res.sample(row, cap=20)
    # ---- identity comparisons: a value of pointer type against a data-free variant / another pointer --------
    # A pointer-typed value is, in the TypeScript back end, either a number 2p+1 (the i31 p) or an array (a struct);
    # in the WebAssembly back end an i31 or a struct reference.  JS loose equality coerces an object operand:
    # `[m] == k` is `m == k` for a one-element array holding a number (ToPrimitive -> "m" -> ToNumber).
    import subprocess
    for r_ in [r for r in drv.optable() if "ref_cmp" in r]:
        opname = r_["ref_cmp"]
        if "ref.eq" not in r_["wat"]:
            raise Inconclusive("identity comparison is no longer lowered to ref.eq: %r" % r_["wat"])
        wat_negated = "i32.xor" in r_["wat"] or "i32.eqz" in r_["wat"]
        if (opname == "!=") != wat_negated:
            raise Inconclusive("unexpected WAT template for %s: %r" % (opname, r_["wat"]))
        for form, ts in (("literal", r_["ts_literal"]), ("vars", r_["ts_vars"])):
            mt = re.match(r"^\s*let r = Number\(a (===|!==|==|!=) (\w+)\);\s*$", ts)
            if not mt:
                raise Inconclusive("unexpected TS template for an identity comparison: %r" % ts)
            jsop, rhs = mt.group(1), mt.group(2)
            # operand model: kind 0 = number (i31), 1 = one-element array [number], 2 = any other object (identity `id`)
            ka, va, ia = z3.Int("ka"), z3.Int("va"), z3.Int("ia")
            kb, vb, ib = z3.Int("kb"), z3.Int("vb"), z3.Int("ib")
            side = [ka >= 0, ka <= 2, kb >= 0, kb <= 2, z3.Implies(ka == 0, va % 2 == 1), z3.Implies(kb == 0, vb % 2 == 1),
                    # distinct objects have distinct identities; the same object has the same content
                    z3.Implies(z3.And(ka != 0, kb != 0, ia == ib), z3.And(ka == kb, va == vb))]
            if form == "literal":
                side += [kb == 0, vb == int(rhs)]
            loose = z3.If(z3.And(ka == 0, kb == 0), va == vb,
                          z3.If(z3.And(ka != 0, kb != 0), ia == ib,
                                z3.If(ka == 1, z3.And(kb == 0, va == vb), z3.If(kb == 1, z3.And(ka == 0, va == vb), False))))
            strict = z3.If(z3.And(ka == 0, kb == 0), va == vb, z3.If(z3.And(ka != 0, kb != 0), ia == ib, False))
            js_eq = loose if jsop in ("==", "!=") else strict
            js_val = js_eq if jsop in ("==", "===") else z3.Not(js_eq)
            wasm_eq = z3.If(z3.And(ka == 0, kb == 0), va == vb, z3.If(z3.And(ka != 0, kb != 0), ia == ib, False))
            wasm_val = z3.Not(wasm_eq) if wat_negated else wasm_eq
            obligations += 1
            s_ = z3.Solver()
            s_.add(*side)
            s_.add(js_val != wasm_val)
            rr = s_.check()
            smt.STATS["queries"] += 1
            row = {"operator": "identity %s (%s)" % (opname, form), "ts": ts.strip(), "wat": r_["wat"], "verdict": str(rr)}
            if rr == z3.unsat:
                discharged += 1
                smt.STATS["unsat"] += 1
            elif rr == z3.sat:
                smt.STATS["sat"] += 1
                m = s_.model()
                g = lambda v: m.eval(v, model_completion=True).as_long()
                def js_lit(k, v):
                    return str(v) if k == 0 else ("[%d]" % v if k == 1 else "[%d, 0]" % v)
                a_js, b_js = js_lit(g(ka), g(va)), js_lit(g(kb), g(vb))
                if g(ka) != 0 and g(kb) != 0 and g(ia) == g(ib):
                    prog = "const a = %s; const b = a;" % a_js
                else:
                    prog = "const a = %s; const b = %s;" % (a_js, b_js)
                prog += " const %s = b; console.log(Number(a %s %s));" % ("_unused" if form == "vars" else "_k", jsop, "b")
                out = subprocess.run(["node", "-e", prog], capture_output=True, text=True, timeout=30).stdout.strip()
                want = "1" if z3.is_true(m.eval(js_val, model_completion=True)) else "0"
                row.update({"a": a_js, "b": b_js, "node_prints": out, "model_says_ts": want,
                            "wasm": 1 if z3.is_true(m.eval(wasm_val, model_completion=True)) else 0})
                if out != want:
                    res.inconc("identity comparison %s: the JS coercion model disagrees with node on `%s %s %s`" % (opname, a_js, jsop, b_js))
                else:
                    kn = [k for k in known if k.get("id") and k.get("operator") == "identity " + opname]
                    if kn:
                        res.known("%s %s" % (kn[0]["id"], kn[0]["short"]))
                    else:
                        res.violation("TS and WASM disagree on the identity comparison `%s %s %s`: TypeScript gives %s (node), ref.eq gives %d"
                                      % (a_js, jsop, b_js, out, row["wasm"]),
                                      {"property": "C04", "operator": "identity " + opname, "ts": ts, "wat": r_["wat"], **row})
            else:
                res.inconc("solver inconclusive on identity comparison %s" % opname)
            rows.append(row)
            res.sample(row, cap=30)
    return {"operator_obligations": obligations, "operator_discharged": discharged, "operators": rows}


def replay_concrete(sym, wrap, or0, instr, a, b):
    import math

    def i32(x):
        x &= 0xFFFFFFFF
        return x - (1 << 32) if x >= (1 << 31) else x
    try:
        if sym == "/":
            js = math.floor(a / b) if wrap == "Math.floor" else math.trunc(a / b)
        elif sym == "%":
            js = int(math.fmod(a, b))
        elif sym == "+":
            js = a + b
        elif sym == "-":
            js = a - b
        elif sym == "*":
            js = a * b
        elif sym == "&":
            js = i32(a & b)
        elif sym == "|":
            js = i32(a | b)
        elif sym == "^":
            js = i32(a ^ b)
        elif sym == "<<":
            js = i32((a & 0xFFFFFFFF) << (b & 31))
        elif sym == ">>":
            js = i32(a) >> (b & 31)
        elif sym == ">>>":
            js = (a & 0xFFFFFFFF) >> (b & 31)
        else:
            js = int({"<": a < b, "<=": a <= b, ">": a > b, ">=": a >= b, "==": a == b, "===": a == b, "!=": a != b, "!==": a != b}[sym])
    except ZeroDivisionError:
        return False
    A, B = z3.BitVecVal(a, 32), z3.BitVecVal(b, 32)
    w = z3.simplify(wasm_sem(instr, A, B)[0]).as_signed_long()
    return js != w


# ------------------------------------------------------------------------------------------------
# Part 2: runtime library.  libsam.wat (as embedded in the module the real compiler emits) is executed
# symbolically (E-W) and compared with what the TypeScript prolog computes.

TS_PROLOG_EXPECT = {
    "__Str$fromInt": "[1, String(v) as unknown as number]",
    "__Str$toInt": "parseInt(v as unknown as string, 10)",
    "__Str$concat": "[1, a + b]",
}
# the Vec part of the TypeScript prelude: a Vec is a JS array.  run_vec_runtime models exactly these bodies.
TS_VEC_EXPECT = {
    "__Vec$empty": "[]",
    "__Vec$withCapacity": "[]",
    "__Vec$of": "[v]",
    "__Vec$length": "t.length",
    "__Vec$capacity": "t.length",
    "__Vec$reserve": "0",
    "__Vec$push": "{ t.push(v); return 0; }",
    "__Vec$pop": "{ if (t.length === 0) { throw Error('pop from empty Vec'); } return t.pop(); }",
    "__Vec$get": "{ if (i < 0 || i >= t.length) { throw Error('Vec index out of bounds'); } return t[i]; }",
    "__Vec$set": "{ if (i < 0 || i >= t.length) { throw Error('Vec index out of bounds'); } t[i] = v; return 0; }",
    "__Vec$eq": "{ if (a === b) return 1; if (a.length !== b.length) return 0; for (let i = 0; i < a.length; i++) { if (a[i] !== b[i]) return 0; } return 1; }",
}


def ts_prolog_bodies(ts_text):
    out = {}
    for ln in ts_text.split("\n"):
        m = re.match(r"^const (\S+) = \(.*?\): [^=]*=> (.*);$", ln)
        if m:
            out[m.group(1)] = m.group(2).strip()
    return out


def run_runtime(res, tier, sc, drv):
    import json
    import os
    import time
    from vlib import wat, irsym
    from vlib.irsym import Int, World, BV
    od = os.path.join(sc.root, "et", "c04rt")
    prog = os.path.join(sc.root, "c04rt.sam")
    open(prog, "w").write('class Main { function main(): unit = { let v = Vec.of<int>("1".toInt()); let _ = v.push(2); '
                          'Process.println(Str.fromInt(v.get(0)) :: "x") } }\n')
    p = drv.call(["dump", od, "11111", "RT=" + prog], check=False)
    if '"status":"ok"' not in p.stdout:
        raise Inconclusive("could not compile the runtime probe program: %s" % p.stdout[:300])
    mod = wat.Module(open(os.path.join(od, "all.wat")).read())
    bodies = ts_prolog_bodies(open(os.path.join(od, "all.ts")).read())
    for fn, expect in TS_PROLOG_EXPECT.items():
        if bodies.get(fn) != expect:
            raise Inconclusive("the TypeScript prolog of %s changed (%r): the JS model of checks/c04.py no longer describes it" % (fn, bodies.get(fn)))
    bounds = {"forks": 40, "steps": 20000, "paths": 400, "seconds": 120 if tier == "quick" else 300}
    obligations = discharged = 0
    details = {}
    t0 = time.time()

    def solve(assertions, to=60):
        s = z3.Solver()
        s.set("timeout", to * 1000)
        s.add(*assertions)
        r = s.check()
        return ("sat", s.model()) if r == z3.sat else (("unsat", None) if r == z3.unsat else ("unknown", None))

    # ---- Str.fromInt(v) == String(v): canonical decimal, for all i32
    world = World()
    ex = wat.WExec(mod, world, bounds)
    ex.deadline = time.time() + bounds["seconds"]
    v = z3.BitVec("v", 32)
    paths = ex.run("__Str$fromInt", [irsym.I31(BV(0)), Int(v)])
    details["fromInt_paths"] = len(paths)
    from_int_paths = []
    for pth in paths:
        obligations += 1
        if pth.outcome != "return":
            r, m = solve(pth.pc)
            if r == "sat":
                vv = m.eval(v, model_completion=True).as_signed_long()
                res.violation("Str.fromInt(%d) does not return under WebAssembly (%s: %s); TypeScript returns \"%d\"" % (vv, pth.outcome, pth.why, vv),
                              {"property": "C04", "function": "__Str$fromInt", "v": vv, "outcome": pth.outcome, "why": pth.why})
            elif r == "unsat":
                discharged += 1
            else:
                res.inconc("fromInt: solver unknown on a %s path" % pth.outcome)
            continue
        arr = pth.value
        elems = ex.arr_parts(arr, _FakeState(pth))[0] if not isinstance(arr, wat.Arr) or arr.elems is None else arr.elems
        if elems is None:
            res.inconc("fromInt: result array has a symbolic length on some path")
            continue
        elems = _final_elems(ex, arr, pth)
        from_int_paths.append((pth, elems))
        k = len(elems)
        neg = v < 0
        mag = z3.If(neg, -v, v)          # unsigned magnitude (INT_MIN keeps its bit pattern 2^31)
        # decimal digits by repeated division (least significant first): q0 = |v|, q(j+1) = q(j) / 10, d(j) = q(j) % 10
        qs = [mag]
        for _ in range(11):
            qs.append(z3.UDiv(qs[-1], BV(10)))
        wrong = []
        for is_neg in (False, True):
            digits = k - 1 if is_neg else k
            here = neg == z3.BoolVal(is_neg)
            if digits <= 0:
                wrong.append(here)
                continue
            bad = []
            if is_neg:
                bad.append(elems[0].t != BV(45))
            for j in range(digits):                       # j-th digit from the right
                pos = k - 1 - j
                bad.append(elems[pos].t != z3.URem(qs[j], BV(10)) + BV(48))
            # canonical: exactly `digits` digits (no leading zero; a lone "0" for zero)
            bad.append(qs[digits] != BV(0))
            if digits > 1:
                bad.append(qs[digits - 1] == BV(0))
            wrong.append(z3.And(here, z3.Or(*bad)))
        # one query per sign (halves the arithmetic each query has to carry)
        verdicts = []
        for w_ in wrong:
            t1 = time.time()
            r, m = solve(pth.pc + [w_], 200 if tier == "quick" else 400)
            verdicts.append((r, m))
            details.setdefault("fromInt_query_s", []).append(round(time.time() - t1, 1))
        if all(r == "unsat" for r, _ in verdicts):
            discharged += 1
        elif any(r == "sat" for r, _ in verdicts):
            m = [m for r, m in verdicts if r == "sat"][0]
            vv = m.eval(v, model_completion=True).as_signed_long()
            got = "".join(chr(m.eval(e.t, model_completion=True).as_long() & 0xFF) for e in elems)
            res.violation("Str.fromInt(%d) is %r under WebAssembly and %r under TypeScript" % (vv, got, str(vv)),
                          {"property": "C04", "function": "__Str$fromInt", "v": vv, "wasm": got, "ts": str(vv)})
        else:
            res.inconc("fromInt: solver unknown on a value path (%d characters)" % k)
    # ---- round trip: Str.toInt(Str.fromInt(v)) == v   (TS: parseInt(String(v), 10) === v)
    RT_MAX = 6 if tier == "quick" else 7
    details["round_trip_bound"] = "strings of <= %d characters (|v| < 10^%d); longer ones only on the concrete boundary values below" % (RT_MAX, RT_MAX - 1)
    for pth, elems in from_int_paths:
        if len(elems) > RT_MAX:
            continue
        obligations += 1
        ex2 = wat.WExec(mod, world, bounds)
        ex2.deadline = time.time() + bounds["seconds"]
        sarr = wat.Arr("_Str", list(elems))
        ps2 = ex2.run("__Str$toInt", [sarr], pth.pc, None)
        bad = False
        for p2 in ps2:
            if p2.outcome == "bound":
                res.inconc("toInt: bound reached on the round trip")
                bad = True
                continue
            cond = p2.pc + ([p2.value.t != v] if p2.outcome == "return" else [])
            r, m = solve(cond, 120 if tier == "quick" else 240)
            if r == "unknown" and tier != "quick" and len(elems) == RT_MAX:
                # the deepest length of the thorough tier is best effort: recorded, not claimed
                details.setdefault("round_trip_undecided_at_max_length", 0)
                details["round_trip_undecided_at_max_length"] += 1
                bad = True
                continue
            if r == "sat":
                vv = m.eval(v, model_completion=True).as_signed_long()
                res.violation("Str.toInt(Str.fromInt(%d)) %s under WebAssembly; TypeScript yields %d" % (vv, "is %s" % m.eval(p2.value.t, model_completion=True).as_signed_long() if p2.outcome == "return" else "traps", vv),
                              {"property": "C04", "function": "__Str$toInt", "v": vv, "outcome": p2.outcome})
                bad = True
            elif r == "unknown":
                res.inconc("toInt: solver unknown on the round trip")
                bad = True
        if not bad:
            discharged += 1
    # concrete boundary values through the same interpreter (not solver-quantified; listed as such)
    conc = []
    for cv in (0, 1, -1, 9, 10, -10, 99, 100, 12345678, -12345678, 999999999, 1000000000, -1000000000, 2147483647, -2147483647, -2147483648):
        exc = wat.WExec(mod, World(), bounds)
        ps = exc.run("__Str$fromInt", [irsym.I31(BV(0)), Int(BV(cv))])
        ok = len(ps) == 1 and ps[0].outcome == "return"
        text = None
        back = None
        if ok:
            el = _final_elems(exc, ps[0].value, ps[0])
            text = "".join(chr(z3.simplify(e.t).as_long() & 0xFF) for e in el)
            ps2 = wat.WExec(mod, World(), bounds).run("__Str$toInt", [wat.Arr("_Str", list(el))])
            if len(ps2) == 1 and ps2[0].outcome == "return":
                back = z3.simplify(ps2[0].value.t).as_signed_long()
        conc.append({"v": cv, "fromInt": text, "toInt_back": back})
        if text != str(cv) or back != cv:
            res.violation("Str.fromInt(%d) / toInt round trip under WebAssembly gives %r / %r" % (cv, text, back),
                          {"property": "C04", "function": "__Str$fromInt/__Str$toInt", "v": cv, "wasm_text": text, "wasm_back": back})
    details["concrete_boundary_values"] = conc
    # ---- Str.concat(a, b) == a + b  and  Str.eq, for all contents and all lengths <= 3
    for fname in ("__Str$concat", "__Str$eq"):
        world2 = World()
        ex3 = wat.WExec(mod, world2, bounds)
        ex3.deadline = time.time() + bounds["seconds"]
        a, b = irsym.Sym("sa", "_Str"), irsym.Sym("sb", "_Str")
        la, lb = z3.BitVec("len!sa", 32), z3.BitVec("len!sb", 32)
        # two distinct string objects (for one object both back ends trivially agree)
        pre = [z3.ULE(la, BV(3)), z3.ULE(lb, BV(3)), z3.Not(world2.fact("refeq!S:sa!S:sb"))]
        aa = z3.Array("arr!sa", z3.BitVecSort(32), z3.BitVecSort(32))
        ab = z3.Array("arr!sb", z3.BitVecSort(32), z3.BitVecSort(32))
        # contents are bytes (i8 arrays): sign-extended on read
        byte = lambda arr, i: z3.SignExt(24, z3.Extract(7, 0, z3.Select(arr, i)))
        ps3 = ex3.run(fname, [a, b], pre, None)
        details[fname + "_paths"] = len(ps3)
        for p3 in ps3:
            obligations += 1
            if p3.outcome != "return":
                r, m = solve(p3.pc)
                if r == "unsat":
                    discharged += 1
                elif r == "sat":
                    res.violation("%s does not return (%s: %s) for some strings of length <= 3" % (fname, p3.outcome, p3.why),
                                  {"property": "C04", "function": fname, "outcome": p3.outcome, "why": p3.why})
                else:
                    res.inconc("%s: solver unknown" % fname)
                continue
            if fname == "__Str$concat" and isinstance(p3.value, irsym.Sym):
                # the helper hands back one of its operands.  The TypeScript prelude builds a new object (`[1, a + b]`),
                # and object identity is observable (Vec<Str>.eq compares elements with ref.eq / ===)
                r, m = solve(p3.pc)
                if r == "unsat":
                    discharged += 1
                elif r == "sat":
                    res.violation("__Str$concat returns its operand %s itself for strings of length %s/%s: under TypeScript the result is a new object, "
                                  "and identity is observable (Vec<Str>.eq)" % (p3.value.key, m.eval(la), m.eval(lb)),
                                  {"property": "C04", "function": fname, "len_a": str(m.eval(la)), "len_b": str(m.eval(lb)), "kind": "identity"})
                else:
                    res.inconc("%s: solver unknown" % fname)
                continue
            if fname == "__Str$concat":
                heap = getattr(p3, "heap", {})
                parts = heap.get(("a", id(p3.value))) or (p3.value.elems, p3.value.zarr, p3.value.zlen)
                elems, zarr, zlen = parts
                if elems is not None:
                    k = len(elems)
                    rlen = BV(k)
                    get = lambda i: elems[i].t if i < k else BV(0)
                else:
                    rlen = zlen
                    get = lambda i: z3.Select(zarr, BV(i))
                wrong = [la + lb != rlen]
                for i in range(6):
                    exp = z3.If(z3.ULT(BV(i), la), byte(aa, BV(i)), byte(ab, BV(i) - la))
                    got = z3.SignExt(24, z3.Extract(7, 0, get(i)))
                    wrong.append(z3.And(z3.ULT(BV(i), la + lb), got != exp))
                r, m = solve(p3.pc + [z3.Or(*wrong)])
            else:
                same = z3.And(la == lb, *[z3.Implies(z3.ULT(BV(i), la), byte(aa, BV(i)) == byte(ab, BV(i))) for i in range(3)])
                r, m = solve(p3.pc + [(p3.value.t != BV(0)) != same])
            if r == "unsat":
                discharged += 1
            elif r == "sat":
                res.violation("%s disagrees with the TypeScript semantics on strings of length %s/%s" % (fname, m.eval(la), m.eval(lb)),
                              {"property": "C04", "function": fname, "len_a": str(m.eval(la)), "len_b": str(m.eval(lb))})
            else:
                res.inconc("%s: solver unknown" % fname)
    details["runtime_wall_s"] = round(time.time() - t0, 1)
    return {"runtime_obligations": obligations, "runtime_discharged": discharged, "runtime": details,
            "runtime_functions": ["__Str$fromInt", "__Str$toInt", "__Str$concat", "__Str$eq"]}


def run_vec_runtime(res, tier, sc, drv):
    """C04, Vec part of the runtime library: the hand-written WAT helpers are executed by E-W on vectors of every
    length <= 3 (two capacities each) whose elements, indices and stored values are symbolic, and compared with the
    meaning of the TypeScript prelude (a Vec is a JS array).  `push` runs through the real `reserve` and array.copy."""
    import os
    import time
    from vlib import wat, irsym
    from vlib.irsym import Int, I31, Obj, World, BV
    od = os.path.join(sc.root, "et", "c04rt")
    if not os.path.exists(os.path.join(od, "all.wat")):
        raise Inconclusive("runtime probe program was not compiled")
    mod = wat.Module(open(os.path.join(od, "all.wat")).read())
    ts_text = open(os.path.join(od, "all.ts")).read()
    bodies = ts_prolog_bodies(ts_text)
    # the reference obligations below compare the WAT helpers with a hand-written reading of the prelude and are only
    # meaningful for the prelude text they were written for; the E-JS comparison further down executes whatever text
    # the compiler emits now, so a changed prelude is decided by E-JS alone
    changed_prelude = sorted(fn for fn, expect in TS_VEC_EXPECT.items() if bodies.get(fn) != expect)
    known = load_known("C04")
    bounds = {"forks": 40, "steps": 20000, "paths": 400, "seconds": 60}
    stats = {"obligations": 0, "discharged": 0, "cases": 0}
    known_hit = {}

    def mkvec(tag, n, cap):
        elems = [I31(z3.BitVec("%s_e%d" % (tag, k), 32)) for k in range(n)]
        side = [e.t == wat.sext31(e.t) for e in elems]
        data = wat.Arr("_VecData", elems + [wat.NULL] * (cap - n), key=tag + "data")
        return Obj("_Vec", [data, Int(BV(n))]), elems, side

    def state_of(ex, path, vec):
        """(length term, element list) of a vector after the call"""
        heap = getattr(path, "heap", {}) or {}
        fields = heap.get(("o", id(vec)), vec.fields)
        data = fields[0]
        parts = heap.get(("a", id(data))) or (data.elems, data.zarr, data.zlen)
        return fields[1], parts[0]

    def decide(assertions):
        s_ = z3.Solver()
        s_.set("timeout", 30000)
        s_.add(*assertions)
        r = s_.check()
        smt.STATS["queries"] += 1
        return r, (s_.model() if r == z3.sat else None)

    def oblige(name, pc, wrong, what, extra=None):
        stats["obligations"] += 1
        r, m = decide(list(pc) + [wrong])
        if r == z3.unsat:
            stats["discharged"] += 1
        elif r == z3.sat:
            kn = [k for k in known if k.get("function") == name]
            if kn:
                known_hit[kn[0]["id"]] = kn[0]["short"]
            else:
                res.violation("Vec runtime: %s under WebAssembly differs from the TypeScript prelude: %s" % (name, what),
                              {"property": "C04", "function": name, "what": what, "model": str(m)[:600], **(extra or {})})
        else:
            res.inconc("Vec runtime %s: solver unknown" % name)

    def run(fname, args, pre):
        world = World()
        ex = wat.WExec(mod, world, bounds)
        ex.inline_calls = ("__Vec$reserve",)
        ex.deadline = time.time() + bounds["seconds"]
        return ex, ex.run(fname, args, pre, None)

    ejs = _vec_ejs_compare(res, ts_text, mkvec, run, state_of, decide, known, known_hit, stats)
    for n in (range(4) if not changed_prelude else ()):
        for cap in (n, n + 2):
            stats["cases"] += 1
            # ---- length / capacity
            vec, elems, side = mkvec("a", n, cap)
            ex, ps = run("__Vec$length", [vec], side)
            for p_ in ps:
                oblige("__Vec$length", p_.pc, z3.BoolVal(p_.outcome != "return") if p_.outcome != "return" else p_.value.t != BV(n), "length of a %d-element vector" % n)
            vec, elems, side = mkvec("a", n, cap)
            ex, ps = run("__Vec$capacity", [vec], side)
            for p_ in ps:
                oblige("__Vec$capacity", p_.pc, z3.BoolVal(True) if p_.outcome != "return" else p_.value.t != BV(n),
                       "capacity() is %d under WebAssembly and %d (the length) under TypeScript" % (cap, n))
            # ---- get(i), set(i, v): all indices
            i = z3.BitVec("i", 32)
            oob = z3.Or(i < 0, i >= BV(n))
            vec, elems, side = mkvec("a", n, cap)
            ex, ps = run("__Vec$get", [vec, Int(i)], side)
            for p_ in ps:
                if p_.outcome == "return":
                    exp = BV(0)
                    for k in range(n - 1, -1, -1):
                        exp = z3.If(i == BV(k), elems[k].t, exp)
                    got = p_.value.t if isinstance(p_.value, I31) else None
                    oblige("__Vec$get", p_.pc, z3.Or(oob, (got != exp) if got is not None else z3.BoolVal(True)), "get(i) returns another element or succeeds out of bounds (n=%d)" % n)
                else:
                    oblige("__Vec$get", p_.pc, z3.Not(oob), "get(i) traps for an index inside the vector (n=%d)" % n)
            v = I31(z3.BitVec("v", 32))
            vec, elems, side = mkvec("a", n, cap)
            ex, ps = run("__Vec$set", [vec, Int(i), v], side + [v.t == wat.sext31(v.t)])
            for p_ in ps:
                if p_.outcome == "return":
                    ln, after = state_of(ex, p_, vec)
                    wrong = [oob, ln.t != BV(n)]
                    for k in range(n):
                        exp = z3.If(i == BV(k), v.t, elems[k].t)
                        wrong.append(after[k].t != exp if isinstance(after[k], I31) else z3.BoolVal(True))
                    oblige("__Vec$set", p_.pc, z3.Or(*wrong), "set(i, v) stores elsewhere, changes the length or succeeds out of bounds (n=%d)" % n)
                else:
                    oblige("__Vec$set", p_.pc, z3.Not(oob), "set(i, v) traps for an index inside the vector (n=%d)" % n)
            # ---- pop
            vec, elems, side = mkvec("a", n, cap)
            ex, ps = run("__Vec$pop", [vec], side)
            for p_ in ps:
                if p_.outcome == "return":
                    ln, after = state_of(ex, p_, vec)
                    wrong = [z3.BoolVal(n == 0), ln.t != BV(n - 1)]
                    if n > 0:
                        wrong.append(p_.value.t != elems[n - 1].t if isinstance(p_.value, I31) else z3.BoolVal(True))
                        for k in range(n - 1):
                            wrong.append(after[k].t != elems[k].t if isinstance(after[k], I31) else z3.BoolVal(True))
                    oblige("__Vec$pop", p_.pc, z3.Or(*wrong), "pop() of a %d-element vector" % n)
                else:
                    oblige("__Vec$pop", p_.pc, z3.BoolVal(n != 0), "pop() traps on a non-empty vector (n=%d)" % n)
            # ---- push (through the real reserve + array.copy)
            vec, elems, side = mkvec("a", n, cap)
            v = I31(z3.BitVec("v", 32))
            ex, ps = run("__Vec$push", [vec, v], side + [v.t == wat.sext31(v.t)])
            if not ps:
                res.inconc("Vec runtime push: no path")
            for p_ in ps:
                if p_.outcome == "return":
                    ln, after = state_of(ex, p_, vec)
                    wrong = [ln.t != BV(n + 1)]
                    if after is None or len(after) < n + 1:
                        wrong.append(z3.BoolVal(True))
                    else:
                        for k in range(n):
                            wrong.append(after[k].t != elems[k].t if isinstance(after[k], I31) else z3.BoolVal(True))
                        wrong.append(after[n].t != v.t if isinstance(after[n], I31) else z3.BoolVal(True))
                    oblige("__Vec$push", p_.pc, z3.Or(*wrong), "push(v) on a vector of %d elements and capacity %d" % (n, cap))
                else:
                    oblige("__Vec$push", p_.pc, z3.BoolVal(True), "push(v) does not return (%s: %s) for n=%d capacity=%d" % (p_.outcome, p_.why, n, cap))
    # ---- eq on two distinct vectors of every pair of lengths
    for na in (range(4) if not changed_prelude else ()):
        for nb in range(4):
            stats["cases"] += 1
            a, ea, sa = mkvec("a", na, na + (nb % 2))
            b, eb, sb = mkvec("b", nb, nb + 1)
            ex, ps = run("__Vec$eq", [a, b], sa + sb)
            same = z3.BoolVal(na == nb)
            if na == nb:
                same = z3.And(*[x.t == y.t for x, y in zip(ea, eb)]) if na else z3.BoolVal(True)
            for p_ in ps:
                if p_.outcome == "return":
                    oblige("__Vec$eq", p_.pc, (p_.value.t != BV(0)) != same, "eq of vectors of lengths %d and %d" % (na, nb))
                else:
                    oblige("__Vec$eq", p_.pc, z3.BoolVal(True), "eq of vectors of lengths %d and %d does not return (%s: %s)" % (na, nb, p_.outcome, p_.why))
    a, ea, sa = mkvec("a", 2, 3)
    ex, ps = run("__Vec$eq", [a, a], sa) if not changed_prelude else (None, [])
    for p_ in ps:
        oblige("__Vec$eq", p_.pc, z3.BoolVal(True) if p_.outcome != "return" else p_.value.t != BV(1), "eq of a vector with itself")
    # ---- constructors
    v = I31(z3.BitVec("v", 32))
    ex, ps = run("__Vec$of", [I31(BV(0)), v], [v.t == wat.sext31(v.t)]) if not changed_prelude else (None, [])
    for p_ in ps:
        ok = p_.outcome == "return" and isinstance(p_.value, Obj)
        if ok:
            ln, after = state_of(ex, p_, p_.value)
            oblige("__Vec$of", p_.pc, z3.Or(ln.t != BV(1), after[0].t != v.t if after and isinstance(after[0], I31) else z3.BoolVal(True)), "Vec.of(v)")
        else:
            oblige("__Vec$of", p_.pc, z3.BoolVal(True), "Vec.of(v) does not return a vector")
    for fname, args in ((("__Vec$empty", [I31(BV(0))]), ("__Vec$withCapacity", [I31(BV(0)), Int(BV(5))])) if not changed_prelude else ()):
        ex, ps = run(fname, args, [])
        for p_ in ps:
            ok = p_.outcome == "return" and isinstance(p_.value, Obj)
            oblige(fname, p_.pc, z3.BoolVal(True) if not ok else state_of(ex, p_, p_.value)[0].t != BV(0), "%s is not the empty vector" % fname)
    for kid, short in sorted(known_hit.items()):
        res.known("%s %s" % (kid, short))
    return {"vec_runtime": stats, "vec_runtime_functions": sorted(TS_VEC_EXPECT), "vec_runtime_ejs": ejs,
            "vec_prelude_differs_from_reference": changed_prelude}


def _vec_ejs_compare(res, ts_text, mkvec, run, state_of, decide, known, known_hit, stats):
    """E-JS x E-W: every Vec function of the TypeScript prelude, as emitted by the real compiler, is executed
    symbolically by vlib/jsmini.py and compared path by path with the symbolic execution of the WAT helper on the same
    vector (every length <= 3, two capacities, symbolic elements / index / stored value).  Outcome class (return vs
    bounds panic), returned element or number, and the vector afterwards (length and elements) must agree."""
    import json
    import subprocess
    from vlib import jsmini, wat, ts2js
    from vlib.irsym import Int, I31, Obj, BV
    lines = {}
    for ln in ts_text.split("\n"):
        m = re.match(r"^const (__Vec\$\w+) = ", ln)
        if m:
            lines[m.group(1)] = ln
    out = {"functions": [], "pairs": 0, "obligations": 0, "discharged": 0, "js_paths": 0, "wasm_paths": 0, "node_replays": 0}
    missing = [f for f in TS_VEC_EXPECT if f not in lines]
    if missing:
        raise Inconclusive("the TypeScript prelude no longer defines %s" % ", ".join(missing))
    parsed = {}
    for fn in TS_VEC_EXPECT:
        try:
            parsed[fn] = jsmini.parse_arrow(lines[fn])
        except jsmini.Unsupported as e:
            raise Inconclusive("E-JS cannot parse the TypeScript prelude of %s (%s): %s" % (fn, lines[fn][:120], e))

    def jsrun(fn, args, arrays, pre):
        _, params, body, _ = parsed[fn]
        exj = jsmini.Exec(params, body)
        try:
            return exj.run(args, arrays, pre)
        except jsmini.Unsupported as e:
            raise Inconclusive("E-JS cannot execute the TypeScript prelude of %s: %s" % (fn, e))

    def num(v):
        """numeric term of a value of either side, None when it is not a number"""
        if isinstance(v, (I31, Int)):
            return v.t
        if isinstance(v, jsmini.Num):
            return v.t
        return None

    def differs(fn, kind, p_, q_, wvec, jarr, ex):
        """z3 formula: the two paths, taken together, show different behaviour"""
        w_ret = p_.outcome == "return"
        if q_.outcome == "oob-store":
            return z3.BoolVal(True)
        if w_ret != (q_.outcome == "return"):
            return z3.BoolVal(True)
        if not w_ret:
            return z3.BoolVal(False)          # both end in the bounds panic
        wrong = []
        if kind in ("number", "element"):
            a_, b_ = num(p_.value), num(q_.value)
            wrong.append(z3.BoolVal(True) if a_ is None or b_ is None else a_ != b_)
        wv = p_.value if kind == "vector" else wvec
        jv = q_.value if kind == "vector" else jarr
        if wv is not None:
            if not isinstance(wv, Obj) or not isinstance(jv, jsmini.Arr):
                return z3.BoolVal(True)
            ln, after = state_of(ex, p_, wv)
            jelems = q_.arrays[jv.name]
            wrong.append(ln.t != BV(len(jelems)))
            for k_, je in enumerate(jelems):
                if after is None or k_ >= len(after):
                    wrong.append(ln.t == BV(len(jelems)))      # cannot see the slot: differs if the lengths agree
                    continue
                a_, b_ = num(after[k_]), num(je)
                wrong.append(z3.And(ln.t == BV(len(jelems)), z3.BoolVal(True) if a_ is None or b_ is None else a_ != b_))
        return z3.Or(*wrong) if wrong else z3.BoolVal(False)

    def node_confirms(fn, model, jargs_desc, q_):
        """replay the TypeScript side of a witness on the real prelude under node: the outcome E-JS predicts for the
        concrete arguments must be what node does"""
        g = lambda t: z3.simplify(model.eval(t, model_completion=True)).as_signed_long()
        def lit(d):
            if d[0] == "num":
                return str(g(d[1]))
            return "[" + ", ".join(str(g(x)) for x in d[1]) + "]"
        args_js = ", ".join("a%d" % k_ for k_ in range(len(jargs_desc)))
        decl = "".join("const a%d = %s; " % (k_, lit(d)) for k_, d in enumerate(jargs_desc))
        prog = ts2js.strip(lines[fn]) + "\n" + decl + "let r; try { r = ['return', %s(%s)]; } catch (e) { r = ['throw']; }\nconsole.log(JSON.stringify([r, %s]));" % (
            fn, args_js, ", ".join("a%d" % k_ for k_, d in enumerate(jargs_desc) if d[0] == "arr") or "null")
        try:
            pr = subprocess.run(["node", "-e", prog], capture_output=True, text=True, timeout=30)
            got = json.loads(pr.stdout.strip().split("\n")[-1])
        except Exception as e:
            return None, "node replay failed: %r" % (e,)
        out["node_replays"] += 1
        want = q_.outcome if q_.outcome != "oob-store" else "return"
        return got[0][0] == want, {"node": got, "ejs_outcome": q_.outcome, "program": prog}

    def compare(fn, kind, wargs, wpre, jargs, jarrays, jargs_desc, wvec=None, jarr=None, what=""):
        ex, wps = run(fn, wargs, wpre)
        jps = jsrun(fn, jargs, jarrays, wpre)
        out["wasm_paths"] += len(wps)
        out["js_paths"] += len(jps)
        if not wps or not jps:
            res.inconc("E-JS comparison of %s: no path on one side (%s)" % (fn, what))
            return
        met = 0
        for p_ in wps:
            for q_ in jps:
                d = differs(fn, kind, p_, q_, wvec, jarr, ex)
                out["obligations"] += 1
                stats["obligations"] += 1
                both, _m = decide(list(p_.pc) + list(q_.pc))
                if both == z3.unsat:
                    out["discharged"] += 1
                    stats["discharged"] += 1
                    continue
                met += 1
                r, m = decide(list(p_.pc) + list(q_.pc) + [d])
                if r == z3.unsat:
                    out["discharged"] += 1
                    stats["discharged"] += 1
                elif r == z3.sat:
                    kn = [k for k in known if k.get("function") == fn]
                    if kn:
                        known_hit[kn[0]["id"]] = kn[0]["short"]
                        continue
                    ok, info = node_confirms(fn, m, jargs_desc, q_)
                    if ok is not True:
                        res.inconc("E-JS witness for %s does not replay on the real prelude under node: %s" % (fn, str(info)[:300]))
                        continue
                    res.violation("Vec runtime: %s under WebAssembly differs from the TypeScript prelude `%s` (%s): WebAssembly %s, TypeScript %s"
                                  % (fn, parsed[fn][3][:100], what, p_.outcome if p_.outcome != "return" else "returns", q_.outcome + (" (%s)" % q_.why if q_.why else "")),
                                  {"property": "C04", "function": fn, "case": what, "model": str(m)[:600], "replay": info})
                    return
                else:
                    res.inconc("E-JS comparison of %s: solver unknown" % fn)
        out["pairs"] += met

    i = z3.BitVec("i", 32)
    for n in range(4):
        for cap in (n, n + 2):
            case = "length %d, capacity %d" % (n, cap)

            def mk():
                vec, elems, side = mkvec("a", n, cap)
                arr = jsmini.Arr("a")
                return vec, elems, side, arr, {"a": [jsmini.Num(e.t) for e in elems]}, ("arr", [e.t for e in elems])

            vec, elems, side, arr, arrays, adesc = mk()
            compare("__Vec$length", "number", [vec], side, [arr], arrays, [adesc], what=case)
            vec, elems, side, arr, arrays, adesc = mk()
            compare("__Vec$capacity", "number", [vec], side, [arr], arrays, [adesc], what=case)
            vec, elems, side, arr, arrays, adesc = mk()
            compare("__Vec$get", "element", [vec, Int(i)], side, [arr, jsmini.Num(i)], arrays, [adesc, ("num", i)], what=case + ", any index")
            v = I31(z3.BitVec("v", 32))
            vpre = [v.t == wat.sext31(v.t)]
            vec, elems, side, arr, arrays, adesc = mk()
            compare("__Vec$set", "state", [vec, Int(i), v], side + vpre, [arr, jsmini.Num(i), jsmini.Num(v.t)], arrays, [adesc, ("num", i), ("num", v.t)],
                    wvec=vec, jarr=arr, what=case + ", any index and value")
            vec, elems, side, arr, arrays, adesc = mk()
            compare("__Vec$pop", "element", [vec], side, [arr], arrays, [adesc], wvec=vec, jarr=arr, what=case)
            vec, elems, side, arr, arrays, adesc = mk()
            compare("__Vec$push", "state", [vec, v], side + vpre, [arr, jsmini.Num(v.t)], arrays, [adesc, ("num", v.t)], wvec=vec, jarr=arr, what=case + ", any value")
    for na in range(4):
        for nb in range(4):
            a, ea, sa = mkvec("a", na, na + (nb % 2))
            b, eb, sb = mkvec("b", nb, nb + 1)
            compare("__Vec$eq", "number", [a, b], sa + sb, [jsmini.Arr("a"), jsmini.Arr("b")],
                    {"a": [jsmini.Num(e.t) for e in ea], "b": [jsmini.Num(e.t) for e in eb]}, [("arr", [e.t for e in ea]), ("arr", [e.t for e in eb])],
                    what="two vectors of lengths %d and %d" % (na, nb))
    a, ea, sa = mkvec("a", 2, 3)
    ja = jsmini.Arr("a")
    compare("__Vec$eq", "number", [a, a], sa, [ja, ja], {"a": [jsmini.Num(e.t) for e in ea]}, [("arr", [e.t for e in ea])] * 2, what="a vector and itself")
    v = I31(z3.BitVec("v", 32))
    compare("__Vec$of", "vector", [I31(BV(0)), v], [v.t == wat.sext31(v.t)], [jsmini.Num(BV(0)), jsmini.Num(v.t)], {}, [("num", BV(0)), ("num", v.t)], what="Vec.of(v)")
    compare("__Vec$empty", "vector", [I31(BV(0))], [], [jsmini.Num(BV(0))], {}, [("num", BV(0))], what="Vec.empty()")
    compare("__Vec$withCapacity", "vector", [I31(BV(0)), Int(BV(5))], [], [jsmini.Num(BV(0)), jsmini.Num(BV(5))], {}, [("num", BV(0)), ("num", BV(5))], what="Vec.withCapacity(5)")
    out["functions"] = sorted(parsed)
    return out


class _FakeState:
    def __init__(self, pth):
        self.heap = getattr(pth, "heap", {})
        self.pc = list(pth.pc)
        self.trace = []
        self.model = None


def _final_elems(ex, arr, pth):
    """contents of an array object at the end of a path (the path keeps the final heap)"""
    heap = getattr(pth, "heap", None) or {}
    k = ("a", id(arr))
    if k in heap:
        return heap[k][0]
    from vlib import wat
    if isinstance(arr, wat.Arr):
        return arr.elems
    return None


# ---- string constants: the same literal under both back ends --------------------------------------------------
# Literals are built from tokens, so every escape sequence is well formed by construction (lexer.rs,
# string_has_valid_escape: \t \v \0 \b \f \n \r \" and \\).
STR_TOKENS = ["a", "1", " ", "`", "$", "{", "}", "'", "t", "n", "r", "0", "\\t", "\\n", "\\r", "\\0", "\\b", "\\f", "\\v", '\\"', "\\\\", "\t", "\u00e9"]
STR_NODE = r"""
const fs = require('fs');
const job = JSON.parse(fs.readFileSync(process.argv[2], 'utf8'));
// the string decoder of the emitted loader, run on a stand-in for the instance's exports (node 20 cannot
// instantiate a WebAssembly-GC module): __strLen / __strGet as libsam.wat defines them over the segment's bytes
let decode = null;
const m = /function gcArrayToString\(arr\) \{[\s\S]*?\n  \}/.exec(job.loader);
if (m) {
  const get = job.signed ? ((a, i) => (a[i] << 24) >> 24) : ((a, i) => a[i]);
  decode = new Function('instance', m[0] + '; return gcArrayToString;')({exports: {__strLen: a => a.length, __strGet: get}});
}
const out = [];
for (const it of job.items) {
  const row = {};
  try { const v = new Function('return (' + it.ts + ');')(); row.ok = typeof v === 'string'; row.bytes = Array.from(Buffer.from(String(v), 'utf8')); row.text = String(v); }
  catch (e) { row.ok = false; row.error = String(e).slice(0, 120); }
  if (decode) { try { row.printed = decode(it.wasm); } catch (e) { row.printed_error = String(e).slice(0, 120); } }
  out.push(row);
}
console.log(JSON.stringify({decoder: !!decode, rows: out}));
"""


def _wat_string_bytes(text):
    out = bytearray()
    i = 0
    while i < len(text):
        c = text[i]
        if c == "\\":
            nxt = text[i + 1]
            if nxt in "0123456789abcdefABCDEF" and text[i + 2] in "0123456789abcdefABCDEF":
                out.append(int(text[i + 1:i + 3], 16))
                i += 3
                continue
            out += {"n": b"\n", "t": b"\t", "r": b"\r", '"': b'"', "'": b"'", "\\": b"\\"}[nxt]
            i += 2
            continue
        out += c.encode("utf8")
        i += 1
    return bytes(out)


def run_string_constants(res, tier, sc, drv):
    """C04, string constants: every literal made of <= 2 (quick) / <= 3 (thorough) tokens - plain characters, the
    characters that are special inside a JavaScript template literal, every escape sequence of the language, a raw tab
    and a non-ASCII character - is compiled by the real compiler; the value JavaScript gives the emitted TypeScript
    literal (evaluated by node) must be the byte string the WebAssembly module builds from its data segment, and the
    string decoder of the emitted loader (what `Process.println` prints under WebAssembly) must turn those bytes into
    the same text.  This is a gate over concrete literals (exhaustive up to the stated length), not a solver verdict."""
    import itertools
    import json
    import os
    import subprocess
    depth = 2 if tier == "quick" else 3
    lits = [""]
    for n in range(1, depth + 1):
        lits += ["".join(t) for t in itertools.product(STR_TOKENS, repeat=n)]
    d = os.path.join(sc.root, "c04str")
    os.makedirs(d, exist_ok=True)
    stats = {"literals": len(lits), "max_tokens": depth, "tokens": len(STR_TOKENS), "constants_compared": 0, "batches": 0, "rejected_literals": 0,
             "ts_not_evaluable": 0, "values_differ": 0}
    first = {}

    def compile_batch(batch):
        body = "".join('    let _ = Process.println("%s");\n' % l for l in batch)
        path = os.path.join(d, "L.sam")
        open(path, "w", encoding="utf8").write("class Main {\n  function main(): unit = {\n%s  }\n}\n" % body)
        out = os.path.join(d, "out")
        p = drv.call(["compile", out, "L", "L=" + path], check=False, timeout=600)
        try:
            st_ = json.loads(p.stdout.strip().split("\n")[-1])
        except Exception:
            raise Inconclusive("string constants: the driver gave no verdict: %s" % (p.stdout + p.stderr)[-300:])
        return st_, out

    def check_batch(batch):
        st_, out = compile_batch(batch)
        if st_.get("status") == "rejected":
            if len(batch) == 1:
                stats["rejected_literals"] += 1
                return
            mid = len(batch) // 2
            check_batch(batch[:mid])
            check_batch(batch[mid:])
            return
        if st_.get("status") != "ok":
            res.violation("string constants: the compiler answers %s for a program that only prints string literals" % st_.get("status"),
                          {"property": "C04", "literals": batch[:20]})
            return
        stats["batches"] += 1
        ts = open(os.path.join(out, "L.ts"), encoding="utf8").read()
        wat_text = open(os.path.join(out, "__all__.wat"), encoding="utf8").read()
        ts_lits = {}
        for m in re.finditer(r"^const GLOBAL_STRING_(\d+): _Str = \[0, (`.*?`) as unknown as number\];$", ts, re.M | re.S):
            ts_lits[int(m.group(1))] = m.group(2)
        dm = re.search(r'^\(data \$d2 "(.*)"\)$', wat_text, re.M)
        segs = {int(m.group(1)): (int(m.group(2)), int(m.group(3)))
                for m in re.finditer(r"\(global\.set \$GLOBAL_STRING_(\d+) \(array\.new_data \$_Str \$d2 \(i32\.const (\d+)\) \(i32\.const (\d+)\)\)\)", wat_text)}
        if not ts_lits or dm is None or sorted(ts_lits) != sorted(segs):
            raise Inconclusive("string constants: the emitted TypeScript / WebAssembly text no longer has the expected shape (%d TS constants, %d wasm constants)" % (len(ts_lits), len(segs)))
        data = _wat_string_bytes(dm.group(1))
        order = sorted(ts_lits)
        items = os.path.join(d, "items.json")
        gm = re.search(r'\(export "__strGet"\)[^\n]*\n\s*\(array\.get(_s|_u)? ', wat_text)
        loader_path = os.path.join(out, "__samlang_loader__.js")
        if gm is None or not os.path.exists(loader_path):
            raise Inconclusive("string constants: the module no longer exports __strGet / ships __samlang_loader__.js in the expected shape")
        json.dump({"loader": open(loader_path, encoding="utf8").read(), "signed": gm.group(1) == "_s",
                   "items": [{"ts": ts_lits[i], "wasm": list(data[segs[i][0]:segs[i][0] + segs[i][1]])} for i in order]}, open(items, "w"))
        script = os.path.join(d, "eval.js")
        open(script, "w").write(STR_NODE)
        pr = subprocess.run(["node", script, items], capture_output=True, text=True, timeout=120)
        try:
            answer = json.loads(pr.stdout.strip().split("\n")[-1])
            vals = answer["rows"]
        except Exception:
            raise Inconclusive("string constants: node did not evaluate the literals: %s" % (pr.stdout + pr.stderr)[-300:])
        if not answer.get("decoder"):
            raise Inconclusive("string constants: gcArrayToString was not found in the emitted loader")
        for i, v in zip(order, vals):
            off, ln = segs[i]
            wasm_bytes = list(data[off:off + ln])
            stats["constants_compared"] += 1
            if v.get("ok") and v["bytes"] == wasm_bytes and v.get("printed") != v.get("text"):
                stats["printed_differently"] = stats.get("printed_differently", 0) + 1
                first.setdefault("printed_differently", {"typescript_literal": ts_lits[i], "typescript_prints": v.get("text"), "wasm_bytes": wasm_bytes,
                                                         "loader_prints": v.get("printed", v.get("printed_error"))})
            if not v.get("ok"):
                stats["ts_not_evaluable"] += 1
                first.setdefault("ts_not_evaluable", {"typescript_literal": ts_lits[i], "node": v.get("error"), "wasm_bytes": wasm_bytes})
            elif v["bytes"] != wasm_bytes:
                stats["values_differ"] += 1
                first.setdefault("values_differ", {"typescript_literal": ts_lits[i], "typescript_value_utf8": v["bytes"], "wasm_bytes": wasm_bytes})

    for k in range(0, len(lits), 150):
        check_batch(lits[k:k + 150])
    if "ts_not_evaluable" in first:
        w = first["ts_not_evaluable"]
        res.violation("string constants: %d literal(s) are emitted as TypeScript that JavaScript cannot evaluate, e.g. %s (%s); WebAssembly holds the bytes %s"
                      % (stats["ts_not_evaluable"], w["typescript_literal"], w["node"], w["wasm_bytes"]), {"property": "C04", "class": "ts_not_evaluable", **w})
    if "values_differ" in first:
        w = first["values_differ"]
        res.violation("string constants: %d literal(s) denote different strings under the two back ends, e.g. %s is %s (UTF-8) under TypeScript and %s under WebAssembly"
                      % (stats["values_differ"], w["typescript_literal"], w["typescript_value_utf8"], w["wasm_bytes"]), {"property": "C04", "class": "values_differ", **w})
    if "printed_differently" in first:
        w = first["printed_differently"]
        res.violation("string constants: %d literal(s) hold the same bytes under both back ends but are printed differently: the loader of the WebAssembly module turns %s into %r where TypeScript prints %r"
                      % (stats["printed_differently"], w["wasm_bytes"], w["loader_prints"], w["typescript_prints"]), {"property": "C04", "class": "printed_differently", **w})
    if stats["constants_compared"] < len(STR_TOKENS):
        res.inconc("string constants: only %d constants were compared" % stats["constants_compared"])
    return {"string_constants": stats}
