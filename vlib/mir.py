"""E-M: symbolic execution of rustc MIR text (`-Zunpretty=mir`) into z3 terms.

Scope (anything else raises Untranslatable -> the kernel is reported INCONCLUSIVE):
  * acyclic CFGs (a block revisited on one path = loop -> Untranslatable)
  * scalars i8..i64/u8..u64/isize/usize/bool/char as bit-vectors / Bools
  * ADTs (structs, enums with payload, tuples, Option) as lazily materialised trees; field
    indices and field types come from the MIR projections themselves, variant and field
    *names* from the crate sources (parsed by `RustDefs`)
  * references as (cell, projection path); opaque types (PStr, VariableName payloads we do
    not look into) as uninterpreted constants compared only by equality
  * calls: to another function present in the loaded dumps (inlined, path by path), to
    derived PartialEq::eq/ne found in the dumps, or to the whitelisted std functions below
    whose semantics are written from their documentation (part of the trusted base)

A function denotes a list of paths (path condition, outcome) with outcome one of
  ("return", Value) | ("panic", message) | ("unreachable",)
"""
import re
import z3


class Untranslatable(Exception):
    pass


INT_TYPES = {
    "i8": (8, True), "i16": (16, True), "i32": (32, True), "i64": (64, True), "i128": (128, True),
    "isize": (64, True),
    "u8": (8, False), "u16": (16, False), "u32": (32, False), "u64": (64, False), "u128": (128, False),
    "usize": (64, False), "char": (32, False),
}


# ------------------------------------------------------------------------------------
# Rust source definitions (variant order, field order)

class RustDefs:
    def __init__(self):
        self.enums = {"Option": ["None", "Some"], "ControlFlow": ["Continue", "Break"],
                      "Result": ["Ok", "Err"], "Ordering": ["Less", "Equal", "Greater"]}
        self.enum_discr = {"Ordering": {"Less": -1, "Equal": 0, "Greater": 1}}
        self.structs = {}
        self.enum_variant_fields = {}

    def load_source(self, text):
        # strip comments
        text = re.sub(r"//[^\n]*", "", text)
        for m in re.finditer(r"\benum\s+(\w+)\s*(?:<[^{]*>)?\s*\{", text):
            name = m.group(1)
            body, _ = self._balanced(text, m.end() - 1)
            variants = []
            fields = {}
            for vname, rest in self._split_variants(body):
                variants.append(vname)
                fields[vname] = rest
            if variants:
                self.enums[name] = variants
                self.enum_variant_fields[name] = fields
        for m in re.finditer(r"\bstruct\s+(\w+)\s*(?:<[^{;(]*>)?\s*\{", text):
            name = m.group(1)
            body, _ = self._balanced(text, m.end() - 1)
            names = []
            for part in self._split_top(body, ","):
                part = part.strip()
                part = re.sub(r"#\[[^\]]*\]", "", part).strip()
                mm = re.match(r"(?:pub(?:\([^)]*\))?\s+)?(\w+)\s*:", part)
                if mm:
                    names.append(mm.group(1))
            self.structs[name] = names
        for m in re.finditer(r"\bstruct\s+(\w+)\s*(?:<[^({;]*>)?\s*\(", text):
            self.structs.setdefault(m.group(1), [])   # tuple struct: positional fields

    @staticmethod
    def _balanced(text, open_idx):
        depth = 0
        i = open_idx
        while i < len(text):
            c = text[i]
            if c == "{":
                depth += 1
            elif c == "}":
                depth -= 1
                if depth == 0:
                    return text[open_idx + 1:i], i
            i += 1
        raise Untranslatable("unbalanced braces in source")

    @staticmethod
    def _split_top(body, sep):
        out, depth, cur = [], 0, ""
        for c in body:
            if c in "({[<":
                depth += 1
            elif c in ")}]>":
                depth -= 1
            if c == sep and depth == 0:
                out.append(cur)
                cur = ""
            else:
                cur += c
        if cur.strip():
            out.append(cur)
        return out

    def _split_variants(self, body):
        for part in self._split_top(body, ","):
            part = re.sub(r"#\[[^\]]*\]", "", part).strip()
            if not part:
                continue
            mm = re.match(r"(\w+)\s*(.*)$", part, re.S)
            if not mm:
                continue
            rest = mm.group(2).strip()
            fnames = None
            if rest.startswith("{"):
                inner = rest[1:rest.rindex("}")]
                fnames = []
                for f in self._split_top(inner, ","):
                    m2 = re.match(r"\s*(\w+)\s*:", f)
                    if m2:
                        fnames.append(m2.group(1))
            yield mm.group(1), fnames

    def variant_index(self, enum, variant):
        if enum not in self.enums:
            raise Untranslatable("unknown enum %s" % enum)
        try:
            return self.enums[enum].index(variant)
        except ValueError:
            raise Untranslatable("unknown variant %s::%s" % (enum, variant))


# ------------------------------------------------------------------------------------
# types

def strip_path(t):
    """last path segment of a type name without generics: std::option::Option<i32> -> Option"""
    t = t.strip()
    base = re.split(r"<", t, 1)[0]
    return base.split("::")[-1].strip()


def split_generic_args(t):
    m = re.search(r"<(.*)>\s*$", t.strip(), re.S)
    if not m:
        return []
    return [a.strip() for a in RustDefs._split_top(m.group(1), ",")]


def is_ref(t):
    t = t.strip()
    return t.startswith("&") or t.startswith("*const") or t.startswith("*mut")


def deref_ty(t):
    t = t.strip()
    t = re.sub(r"^&\s*('\w+\s+)?(mut\s+)?", "", t)
    t = re.sub(r"^\*(const|mut)\s+", "", t)
    return t.strip()


# ------------------------------------------------------------------------------------
# values

class Sc:
    __slots__ = ("t", "ty")

    def __init__(self, t, ty):
        self.t = t
        self.ty = ty

    def __repr__(self):
        return "Sc(%s:%s)" % (self.t, self.ty)


class Adt:
    """discr: python int or z3 BitVec(64). variants: idx -> {field_idx: Value}"""
    __slots__ = ("ty", "discr", "variants", "nm")

    def __init__(self, ty, discr, variants=None, nm=None):
        self.ty = ty
        self.discr = discr
        self.variants = variants if variants is not None else {}
        self.nm = nm

    def __repr__(self):
        return "Adt(%s,%s,%s)" % (self.ty, self.discr, self.variants)


class Ref:
    __slots__ = ("cell", "path", "ty")

    def __init__(self, cell, path, ty):
        self.cell = cell
        self.path = path
        self.ty = ty


class Cell:
    __slots__ = ("v",)

    def __init__(self, v=None):
        self.v = v


class Lazy:
    """An input value not yet looked at."""
    __slots__ = ("ty", "nm")

    def __init__(self, ty, nm):
        self.ty = ty
        self.nm = nm


_opaque_sorts = {}


def opaque_sort(name):
    if name not in _opaque_sorts:
        _opaque_sorts[name] = z3.DeclareSort("Opq_" + re.sub(r"\W", "_", name))
    return _opaque_sorts[name]


# ------------------------------------------------------------------------------------
# parsing

class Fn:
    def __init__(self, name, params, ret, locals_, blocks, crate):
        self.name = name
        self.params = params      # [(local, type)]
        self.ret = ret
        self.locals = locals_     # local -> type
        self.blocks = blocks      # bbN -> [lines]
        self.crate = crate


def parse_dump(text, crate):
    fns = {}
    lines = text.split("\n")
    i = 0
    n = len(lines)
    hdr = re.compile(r"^(fn|const|static) (.+?)(?:\((.*)\))?(?: -> (.+?))? \{$|^(const|static)(?: mut)? (.+?): (.+?) = \{$")
    while i < n:
        ln = lines[i]
        if (ln.startswith("fn ") or ln.startswith("const ") or ln.startswith("static ")) and ln.endswith("{"):
            m = re.match(r"^fn (.+?)\((.*)\) -> (.+) \{$", ln)
            kind = "fn"
            if m:
                name, params_s, ret = m.group(1), m.group(2), m.group(3)
            else:
                m = re.match(r"^fn (.+?)\((.*)\) \{$", ln)
                if m:
                    name, params_s, ret = m.group(1), m.group(2), "()"
                else:
                    m = re.match(r"^(?:const|static(?: mut)?) (.+?): (.+) = \{$", ln)
                    if not m:
                        i += 1
                        continue
                    name, params_s, ret = m.group(1), "", m.group(2)
                    kind = "const"
            params = []
            if params_s.strip():
                for p in RustDefs._split_top(params_s, ","):
                    pm = re.match(r"\s*(_\d+): (.+)$", p.strip(), re.S)
                    if pm:
                        params.append((pm.group(1), pm.group(2).strip()))
            locals_ = {"_0": ret}
            for p, t in params:
                locals_[p] = t
            blocks = {}
            cur = None
            i += 1
            while i < n and lines[i] != "}":
                s = lines[i].strip()
                lm = re.match(r"^let (?:mut )?(_\d+): (.+);$", s)
                if lm:
                    locals_[lm.group(1)] = lm.group(2)
                else:
                    bm = re.match(r"^(bb\d+)(?: \(cleanup\))?: \{$", s)
                    if bm:
                        cur = bm.group(1)
                        blocks[cur] = []
                    elif s == "}":
                        if cur is not None and lines[i].startswith("    }"):
                            cur = None
                    elif cur is not None and s:
                        blocks[cur].append(s)
                i += 1
            fns[name] = Fn(name, params, ret, locals_, blocks, crate)
        i += 1
    return fns


# ------------------------------------------------------------------------------------
# executor

class Path:
    def __init__(self, pc, outcome):
        self.pc = pc
        self.outcome = outcome


class Exec:
    def __init__(self, fns, defs, overflow_checks_note=""):
        self.fns = fns          # name -> Fn (all crates)
        self.defs = defs
        self.solver = z3.Solver()
        self.solver.set("timeout", 20000)
        self.fresh_n = 0
        self.max_paths = 4000
        self.overflow_checks = False
        self.opaque_types = {"VariableName", "PStr"}
        # environment stubs: callee regex -> tag.  The call is recorded as an event (tag, args) in the
        # path and returns an arbitrary value of the destination's type (Lazy).
        self.opaque_calls = []
        # stub tag -> function(exec, args, state) whose result is stored with the event: the argument *values* at the
        # time of the call (the recorded args are references, and what they point to may be overwritten later)
        self.event_snapshot = {}
        self.npaths = 0
        self.called = set()

    # ---- helpers
    def fresh(self, base, sort):
        self.fresh_n += 1
        return z3.Const("%s!%d" % (base, self.fresh_n), sort)

    def feasible(self, pc):
        self.solver.push()
        for c in pc:
            self.solver.add(c)
        r = self.solver.check()
        self.solver.pop()
        if r == z3.unknown:
            raise Untranslatable("solver unknown while pruning paths")
        return r == z3.sat

    def materialize(self, lz, st):
        """Turn a Lazy input into a concrete-shaped symbolic value of its type."""
        pc_extra = st["pc"]
        ty = lz.ty.strip()
        if ty in INT_TYPES:
            return Sc(z3.BitVec(lz.nm, INT_TYPES[ty][0]), ty)
        if ty == "bool":
            return Sc(z3.Bool(lz.nm), "bool")
        if is_ref(ty):
            return Ref(("m", lz.nm + ".*", deref_ty(ty)), [], ty)
        if ty.startswith("("):
            return Adt(ty, 0, {0: {}}, lz.nm)
        base = strip_path(ty)
        if base in self.opaque_types:
            return Sc(z3.Const(lz.nm, opaque_sort(base)), "opaque:" + base)
        if base in self.defs.enums:
            nvar = len(self.defs.enums[base])
            d = z3.BitVec(lz.nm + ".discr", 64)
            pc_extra.append(z3.ULT(d, z3.BitVecVal(nvar, 64)))
            return Adt(ty, d, {}, lz.nm)
        if base in self.defs.structs:
            return Adt(ty, 0, {0: {}}, lz.nm)
        # opaque
        return Sc(z3.Const(lz.nm, opaque_sort(base)), "opaque:" + base)

    # ---- memory: every cell is path-local (st["mem"] / st["frames"]); a Ref only holds a key
    def cell_get(self, st, key):
        if key[0] == "l":
            return st["frames"][key[1]].get(key[2])
        mem = st.setdefault("mem", {})
        if key[1] not in mem:
            mem[key[1]] = Lazy(key[2], key[1])
        return mem[key[1]]

    def cell_set(self, st, key, v):
        if key[0] == "l":
            st["frames"][key[1]][key[2]] = v
        else:
            st.setdefault("mem", {})[key[1]] = v

    # ---- value plumbing
    def force(self, v, st):
        if isinstance(v, Lazy):
            return self.materialize(v, st)
        return v

    def field_get(self, adt, vidx, fidx, fty, st):
        adt = self.force(adt, st)
        if not isinstance(adt, Adt):
            raise Untranslatable("field of non-ADT %r" % (adt,))
        vs = adt.variants.setdefault(vidx, {})
        if fidx not in vs:
            vs[fidx] = Lazy(fty, "%s.v%d.f%d" % (adt.nm or "tmp", vidx, fidx))
        v = vs[fidx]
        if isinstance(v, Lazy):
            v = self.materialize(v, st)
            vs[fidx] = v
        return v

    def read_path(self, v, path, st):
        for pr in path:
            if pr[0] == "field":
                _, vidx, fidx, fty = pr
                v = self.field_get(v, vidx, fidx, fty, st)
            elif pr[0] == "deref":
                v = self.force(v, st)
                if not isinstance(v, Ref):
                    raise Untranslatable("deref of non-ref")
                root = self.cell_get(st, v.cell)
                if root is None:
                    raise Untranslatable("deref of a reference to an unassigned local")
                if isinstance(root, Lazy):
                    root = self.materialize(root, st)
                    self.cell_set(st, v.cell, root)
                v = self.read_path(root, v.path, st)
            else:
                raise Untranslatable("projection %r" % (pr,))
        return self.force(v, st)

    def write_path(self, root, path, newv, st):
        """functional update; returns new root"""
        if not path:
            return newv
        pr = path[0]
        if pr[0] == "field":
            _, vidx, fidx, fty = pr
            root = self.force(root, st) if root is not None else None
            if root is None:
                root = Adt("?", vidx if vidx else 0, {}, None)
            if not isinstance(root, Adt):
                raise Untranslatable("field write on non-ADT")
            nv = {k: dict(d) for k, d in root.variants.items()}
            cur = nv.setdefault(vidx, {}).get(fidx)
            nv[vidx][fidx] = self.write_path(cur, path[1:], newv, st)
            return Adt(root.ty, root.discr, nv, root.nm)
        if pr[0] == "deref":
            root = self.force(root, st)
            if not isinstance(root, Ref):
                raise Untranslatable("deref write of non-ref")
            cur = self.cell_get(st, root.cell)
            if isinstance(cur, Lazy):
                cur = self.materialize(cur, st)
            self.cell_set(st, root.cell, self.write_path(cur, root.path + path[1:], newv, st))
            return root
        raise Untranslatable("projection %r" % (pr,))

    # ---- place parsing:  _1 | (_1.0: T) | (*_1) | ((*_1).2: T) | ((_1 as Some).0: T)
    def parse_place(self, s, fn):
        s = s.strip()
        m = re.match(r"^_\d+$", s)
        if m:
            return s, [], fn.locals.get(s, "?")
        if s.startswith("(*") and s.endswith(")"):
            base, path, ty = self.parse_place(s[2:-1], fn)
            return base, path + [("deref",)], deref_ty(ty)
        if s.startswith("(") and s.endswith(")"):
            inner = s[1:-1]
            # split "<place>.<idx>: <type>" at the top-level ": "
            depth = 0
            colon = -1
            for i, c in enumerate(inner):
                if c in "([<":
                    depth += 1
                elif c in ")]>":
                    depth -= 1
                elif c == ":" and depth == 0 and inner[i:i + 2] == ": " and (i == 0 or inner[i - 1] != ":") :
                    colon = i
                    break
            if colon < 0:
                # (_1 as Variant)
                mm = re.match(r"^(.+) as (\w+|variant#\d+)$", inner)
                if mm:
                    base, path, ty = self.parse_place(mm.group(1), fn)
                    return base, path + [("downcast", mm.group(2))], ty
                raise Untranslatable("place %s" % s)
            left, fty = inner[:colon], inner[colon + 2:].strip()
            dot = left.rindex(".")
            bplace, fidx = left[:dot], int(left[dot + 1:])
            base, path, ty = self.parse_place(bplace, fn)
            vidx = 0
            if path and path[-1][0] == "downcast":
                vname = path[-1][1]
                path = path[:-1]
                if vname.startswith("variant#"):
                    vidx = int(vname[8:])
                else:
                    vidx = self.defs.variant_index(strip_path(ty), vname)
            return base, path + [("field", vidx, fidx, fty)], fty
        raise Untranslatable("place %s" % s)

    # ---- constants
    def parse_const(self, s, hint_ty=None):
        s = s.strip()
        if s in ("true", "false"):
            return Sc(z3.BoolVal(s == "true"), "bool")
        m = re.match(r"^(-?\d+)_(\w+)$", s)
        if m and m.group(2) in INT_TYPES:
            w = INT_TYPES[m.group(2)][0]
            return Sc(z3.BitVecVal(int(m.group(1)), w), m.group(2))
        m = re.match(r"^(\w+)::(MIN|MAX)$", s)
        if m and m.group(1) in INT_TYPES:
            w, sg = INT_TYPES[m.group(1)]
            if sg:
                val = -(1 << (w - 1)) if m.group(2) == "MIN" else (1 << (w - 1)) - 1
            else:
                val = 0 if m.group(2) == "MIN" else (1 << w) - 1
            return Sc(z3.BitVecVal(val, w), m.group(1))
        m = re.match(r"^core::num::<impl (\w+)>::(MIN|MAX)$", s)
        if m and m.group(1) in INT_TYPES:
            return self.parse_const("%s::%s" % (m.group(1), m.group(2)))
        m = re.match(r"^'(.)'$", s)
        if m:
            return Sc(z3.BitVecVal(ord(m.group(1)), 32), "char")
        if s == "()":
            return Adt("()", 0, {0: {}})
        return None

    def eval_operand(self, s, fn, st):
        s = s.strip()
        if s.startswith("no_retag "):
            s = s[9:].strip()
        if s.startswith("copy ") or s.startswith("move "):
            base, path, ty = self.parse_place(s[5:], fn)
            return self.read_local(base, path, st)
        if s.startswith("const "):
            c = self.parse_const(s[6:])
            if c is not None:
                return c
            name = s[6:].strip()
            # promoted constant or named const: evaluate its body
            if name in self.fns:
                return self.eval_const_fn(name, st)
            t = self.resolve(name, fn)
            if t is not None:
                return self.eval_const_fn(t.name, st)
            if name.startswith('"') or name.startswith('b"') or name.startswith("b'"):
                # string / byte-string literal: an opaque value (only ever handed to environment stubs)
                self.fresh_n += 1
                return Sc(z3.Const("lit!%d" % self.fresh_n, opaque_sort("literal")), "opaque:literal")
            raise Untranslatable("constant %s" % name)
        raise Untranslatable("operand %s" % s)

    def eval_const_fn(self, name, st):
        paths = self.run_fn(self.fns[name], [], [])
        if len(paths) != 1 or paths[0].outcome[0] != "return":
            raise Untranslatable("const body %s" % name)
        v = paths[0].outcome[1]
        if isinstance(v, Ref) and v.cell[0] == "l":
            # a promoted `&CONST`: move the referent from the (dead) const-evaluation frame into a
            # memory cell of the current path
            tgt = self.cell_get(paths[0].state, v.cell)
            key = ("m", "const!" + name, deref_ty(v.ty))
            self.cell_set(st, key, tgt)
            return Ref(key, v.path, v.ty)
        return v

    def read_local(self, base, path, st):
        if base not in st["locals"]:
            raise Untranslatable("read of unassigned local %s" % base)
        v = st["locals"][base]
        if isinstance(v, Lazy):
            v = self.materialize(v, st)
            st["locals"][base] = v
        return self.read_path(v, path, st)

    def assign(self, place_s, val, fn, st):
        base, path, ty = self.parse_place(place_s, fn)
        if not path:
            st["locals"][base] = val
        else:
            st["locals"][base] = self.write_path(st["locals"].get(base), path, val, st)

    # ---- scalar ops
    def binop(self, op, a, b):
        if not isinstance(a, Sc) or not isinstance(b, Sc):
            raise Untranslatable("binop on non-scalar")
        ta, tb = a.t, b.t
        ty = a.ty
        if ty == "bool" or z3.is_bool(ta):
            if op == "BitAnd":
                return Sc(z3.And(ta, tb), "bool")
            if op == "BitOr":
                return Sc(z3.Or(ta, tb), "bool")
            if op == "BitXor":
                return Sc(z3.Xor(ta, tb), "bool")
            if op == "Eq":
                return Sc(ta == tb, "bool")
            if op == "Ne":
                return Sc(ta != tb, "bool")
            raise Untranslatable("bool op " + op)
        if ty.startswith("opaque:"):
            if op == "Eq":
                return Sc(ta == tb, "bool")
            if op == "Ne":
                return Sc(ta != tb, "bool")
            raise Untranslatable("opaque op " + op)
        w, sg = INT_TYPES[ty]
        if op in ("Shl", "Shr", "ShlUnchecked", "ShrUnchecked"):
            # rustc masks the shift amount in release; in debug an assert precedes it.
            wb = tb.size()
            amt = tb
            if wb < w:
                amt = z3.ZeroExt(w - wb, tb)
            elif wb > w:
                amt = z3.Extract(w - 1, 0, tb)
            amt = amt & z3.BitVecVal(w - 1, w)
            if op.startswith("Shl"):
                return Sc(ta << amt, ty)
            return Sc((ta >> amt) if sg else z3.LShR(ta, amt), ty)
        if tb.size() != w:
            raise Untranslatable("width mismatch in " + op)
        if op in ("Add", "AddUnchecked"):
            return Sc(ta + tb, ty)
        if op in ("Sub", "SubUnchecked"):
            return Sc(ta - tb, ty)
        if op in ("Mul", "MulUnchecked"):
            return Sc(ta * tb, ty)
        if op == "Div":
            return Sc(narrow_signed_divrem("Div", ta, tb) if sg else z3.UDiv(ta, tb), ty)
        if op == "Rem":
            return Sc(narrow_signed_divrem("Rem", ta, tb) if sg else z3.URem(ta, tb), ty)
        if op == "BitAnd":
            return Sc(ta & tb, ty)
        if op == "BitOr":
            return Sc(ta | tb, ty)
        if op == "BitXor":
            return Sc(ta ^ tb, ty)
        if op == "Eq":
            return Sc(ta == tb, "bool")
        if op == "Ne":
            return Sc(ta != tb, "bool")
        if op == "Lt":
            return Sc((ta < tb) if sg else z3.ULT(ta, tb), "bool")
        if op == "Le":
            return Sc((ta <= tb) if sg else z3.ULE(ta, tb), "bool")
        if op == "Gt":
            return Sc((ta > tb) if sg else z3.UGT(ta, tb), "bool")
        if op == "Ge":
            return Sc((ta >= tb) if sg else z3.UGE(ta, tb), "bool")
        if op in ("AddWithOverflow", "SubWithOverflow", "MulWithOverflow"):
            ext = (lambda x: z3.SignExt(w, x)) if sg else (lambda x: z3.ZeroExt(w, x))
            if op[0] == "A":
                wide, r = ext(ta) + ext(tb), ta + tb
            elif op[0] == "S":
                wide, r = ext(ta) - ext(tb), ta - tb
            else:
                wide, r = ext(ta) * ext(tb), ta * tb
            ovf = wide != ext(r)
            return Adt("(%s, bool)" % ty, 0, {0: {0: Sc(r, ty), 1: Sc(ovf, "bool")}})
        if op == "Cmp":
            lt = (ta < tb) if sg else z3.ULT(ta, tb)
            d = z3.If(lt, z3.BitVecVal(-1, 64), z3.If(ta == tb, z3.BitVecVal(0, 64), z3.BitVecVal(1, 64)))
            return Adt("Ordering", d, {})
        raise Untranslatable("binop " + op)

    def cast_int(self, a, ty):
        if not isinstance(a, Sc):
            raise Untranslatable("cast of non-scalar")
        if ty not in INT_TYPES and ty != "bool":
            raise Untranslatable("cast to " + ty)
        w, _ = INT_TYPES[ty]
        t = a.t
        if z3.is_bool(t):
            return Sc(z3.If(t, z3.BitVecVal(1, w), z3.BitVecVal(0, w)), ty)
        sw, ssg = INT_TYPES[a.ty]
        if sw == w:
            return Sc(t, ty)
        if sw > w:
            return Sc(z3.Extract(w - 1, 0, t), ty)
        return Sc(z3.SignExt(w - sw, t) if ssg else z3.ZeroExt(w - sw, t), ty)

    def discr_of(self, v, st):
        v = self.force(v, st)
        if not isinstance(v, Adt):
            raise Untranslatable("discriminant of non-ADT")
        d = v.discr
        if isinstance(d, int):
            base = strip_path(v.ty)
            return z3.BitVecVal(d, 64)
        return d

    # ---- equality between values (derived PartialEq semantics)
    def val_eq(self, a, b, st):
        a = self.force(a, st)
        b = self.force(b, st)
        if isinstance(a, Ref):
            a = self.read_path(a, [("deref",)], st)
        if isinstance(b, Ref):
            b = self.read_path(b, [("deref",)], st)
        if isinstance(a, Sc) and isinstance(b, Sc):
            return a.t == b.t
        if isinstance(a, Adt) and isinstance(b, Adt):
            da = a.discr if not isinstance(a.discr, int) else z3.BitVecVal(a.discr, 64)
            db = b.discr if not isinstance(b.discr, int) else z3.BitVecVal(b.discr, 64)
            conj = [da == db]
            for vidx in set(a.variants) | set(b.variants):
                fa = a.variants.get(vidx, {})
                fb = b.variants.get(vidx, {})
                inner = []
                for fidx in set(fa) | set(fb):
                    if fidx not in fa or fidx not in fb:
                        # one side never looked at the field: materialise it on that side
                        fty = (fa.get(fidx) or fb.get(fidx))
                        fty = fty.ty if hasattr(fty, "ty") else "?"
                        va = self.field_get(a, vidx, fidx, fty, st)
                        vb = self.field_get(b, vidx, fidx, fty, st)
                    else:
                        va, vb = fa[fidx], fb[fidx]
                    inner.append(self.val_eq(va, vb, st))
                if inner:
                    conj.append(z3.Implies(da == z3.BitVecVal(vidx, 64), z3.And(*inner)))
            return z3.And(*conj)
        raise Untranslatable("equality between %r and %r" % (type(a), type(b)))

    # ---- rvalues
    def eval_rvalue(self, rv, fn, st, dest_ty):
        rv = rv.strip()
        if rv.startswith("no_retag "):
            rv = rv[9:].strip()
        if rv.startswith("copy ") or rv.startswith("move ") or rv.startswith("const "):
            m = re.match(r"^(.+) as (\S+) \((\w+)(?:\([^)]*\))?\)$", rv)
            if m:
                kind = m.group(3)
                v = self.eval_operand(m.group(1), fn, st)
                if kind in ("IntToInt",):
                    return self.cast_int(v, m.group(2))
                if kind in ("Transmute", "PtrToPtr", "PointerCoercion"):
                    raise Untranslatable("cast kind " + kind)
                raise Untranslatable("cast kind " + kind)
            return self.eval_operand(rv, fn, st)
        m = re.match(r"^(\w+)\((.*)\)$", rv)
        if m and m.group(1) in ("Add", "Sub", "Mul", "Div", "Rem", "BitAnd", "BitOr", "BitXor", "Shl", "Shr",
                                "Eq", "Ne", "Lt", "Le", "Gt", "Ge", "AddWithOverflow", "SubWithOverflow",
                                "MulWithOverflow", "AddUnchecked", "SubUnchecked", "MulUnchecked",
                                "ShlUnchecked", "ShrUnchecked", "Cmp"):
            args = RustDefs._split_top(m.group(2), ",")
            a = self.eval_operand(args[0], fn, st)
            b = self.eval_operand(args[1], fn, st)
            if m.group(1) in ("Eq", "Ne") and isinstance(a, Adt):
                e = self.val_eq(a, b, st)
                return Sc(e if m.group(1) == "Eq" else z3.Not(e), "bool")
            return self.binop(m.group(1), a, b)
        if m and m.group(1) in ("Neg", "Not"):
            a = self.eval_operand(m.group(2), fn, st)
            if m.group(1) == "Neg":
                return Sc(-a.t, a.ty)
            return Sc(z3.Not(a.t) if z3.is_bool(a.t) else ~a.t, a.ty)
        if m and m.group(1) == "discriminant":
            base, path, ty = self.parse_place(m.group(2), fn)
            v = self.read_local(base, path, st)
            return Sc(self.discr_of(v, st), "isize")
        if rv.startswith("&"):
            mm = re.match(r"^&(?:raw (?:const|mut) )?(?:mut )?(.+)$", rv)
            base, path, ty = self.parse_place(mm.group(1), fn)
            # reborrow through a deref at the head: reuse the target ref
            if path and path[0][0] == "deref" and False:
                pass
            # references to locals: the cell key names the frame and the local
            return Ref(("l", st["fid"], base), path, "&" + ty)
        # aggregates -------------------------------------------------------
        if rv.startswith("(") and rv.endswith(")"):
            inner = rv[1:-1].strip()
            elems = RustDefs._split_top(inner, ",") if inner else []
            elems = [e for e in elems if e.strip()]
            return Adt(dest_ty or "(tuple)", 0, {0: {i: self.eval_operand(e, fn, st) for i, e in enumerate(elems)}})
        if rv.startswith("[") and rv.endswith("]"):
            inner = rv[1:-1].strip()
            if ";" in inner:
                raise Untranslatable("array repeat aggregate")
            elems = [e for e in RustDefs._split_top(inner, ",") if e.strip()]
            return Adt(dest_ty or "[array]", 0, {0: {i: self.eval_operand(e, fn, st) for i, e in enumerate(elems)}})
        m = re.match(r"^(\{closure@[^}]+\})(?: \{(.*)\})?$", rv, re.S)
        if m:
            caps = {}
            if m.group(2):
                for i, part in enumerate(RustDefs._split_top(m.group(2), ",")):
                    if part.strip():
                        caps[i] = self.eval_operand(part.split(":", 1)[1], fn, st)
            return Adt(m.group(1), 0, {0: caps})
        # Path::<T>::Variant(args) | Path::Variant | Path { f: v, .. } | Path::Variant { f: v }
        m = re.match(r"^([\w:<>, &'\[\];()]+?)\s*\{(.*)\}$", rv, re.S)
        if m:
            path_s, body = m.group(1).strip(), m.group(2)
            fields = {}
            segs = self._path_segments(path_s)
            names = []
            vals = []
            for part in RustDefs._split_top(body, ","):
                if not part.strip():
                    continue
                k, v = part.split(":", 1)
                names.append(k.strip())
                vals.append(self.eval_operand(v, fn, st))
            last = segs[-1]
            if last in self.defs.structs and (len(segs) < 2 or segs[-2] not in self.defs.enums or last not in self.defs.enums.get(segs[-2], [])):
                order = self.defs.structs[last]
                for k, v in zip(names, vals):
                    fields[order.index(k)] = v
                return Adt(dest_ty or last, 0, {0: fields})
            if len(segs) >= 2 and segs[-2] in self.defs.enums:
                en = segs[-2]
                vidx = self.defs.variant_index(en, last)
                order = (self.defs.enum_variant_fields.get(en, {}) or {}).get(last)
                if not order:
                    raise Untranslatable("struct-variant field order %s::%s" % (en, last))
                for k, v in zip(names, vals):
                    fields[order.index(k)] = v
                return Adt(dest_ty or en, vidx, {vidx: fields})
            raise Untranslatable("aggregate %s" % path_s)
        m = re.match(r"^([\w:<>, &'\[\];()]+?)\((.*)\)$", rv, re.S)
        if m:
            segs = self._path_segments(m.group(1))
            if len(segs) >= 2 and segs[-2] in self.defs.enums:
                en = segs[-2]
                vidx = self.defs.variant_index(en, segs[-1])
                args = [a for a in RustDefs._split_top(m.group(2), ",") if a.strip()]
                return Adt(dest_ty or en, vidx, {vidx: {i: self.eval_operand(a, fn, st) for i, a in enumerate(args)}})
            if segs[-1] in self.defs.structs or True:
                args = [a for a in RustDefs._split_top(m.group(2), ",") if a.strip()]
                try:
                    return Adt(dest_ty or segs[-1], 0, {0: {i: self.eval_operand(a, fn, st) for i, a in enumerate(args)}})
                except Untranslatable:
                    raise
        segs = self._path_segments(rv)
        if len(segs) >= 2 and segs[-2] in self.defs.enums and segs[-1] in self.defs.enums[segs[-2]]:
            vidx = self.defs.variant_index(segs[-2], segs[-1])
            d = self.defs.enum_discr.get(segs[-2], {}).get(segs[-1], vidx)
            return Adt(dest_ty or segs[-2], d, {vidx: {}})
        raise Untranslatable("rvalue %s" % rv)

    @staticmethod
    def _path_segments(p):
        # drop generic args anywhere:  Option::<i32>::Some -> [Option, Some]
        out, depth, cur = [], 0, ""
        i = 0
        while i < len(p):
            c = p[i]
            if c == "<":
                depth += 1
            elif c == ">":
                depth -= 1
            elif depth == 0:
                if p[i:i + 2] == "::":
                    if cur:
                        out.append(cur)
                    cur = ""
                    i += 2
                    continue
                cur += c
            i += 1
        if cur:
            out.append(cur)
        return [s.strip() for s in out if s.strip()]

    # ---- function execution
    def run_fn(self, fn, args, pc, depth=0, events=None, st_in=None):
        if depth > 12:
            raise Untranslatable("call depth")
        self.called.add(fn.name)
        if st_in is None:
            st0 = {"pc": list(pc), "events": list(events or []), "mem": {}, "frames": {}, "fid": 0}
        else:
            st0 = self._fork_state(st_in)
            st0["pc"] = list(pc)
        fid = (max(st0["frames"]) + 1) if st0["frames"] else 1
        st0["frames"][fid] = {}
        st0["fid"] = fid
        st0["locals"] = st0["frames"][fid]
        for (p, t), a in zip(fn.params, args):
            st0["locals"][p] = a
        out = []
        self._run_block(fn, "bb0", st0, frozenset(), out, depth)
        return out

    def _fork_state(self, st):
        frames = {k: dict(v) for k, v in st.get("frames", {}).items()}
        fid = st.get("fid", 0)
        if fid not in frames:
            frames[fid] = dict(st.get("locals", {}))
        return {"pc": list(st["pc"]), "events": list(st.get("events", [])), "mem": dict(st.get("mem", {})),
                "frames": frames, "fid": fid, "locals": frames[fid]}

    def _run_block(self, fn, bb, st, visited, out, depth):
        while True:
            if bb in visited:
                raise Untranslatable("loop in %s at %s" % (fn.name, bb))
            visited = visited | {bb}
            if bb not in fn.blocks:
                raise Untranslatable("missing block %s" % bb)
            lines = fn.blocks[bb]
            for ln in lines[:-1]:
                self.exec_stmt(ln, fn, st)
            term = lines[-1]
            # ---- terminators
            if term == "return;":
                rv = st["locals"].get("_0")
                if rv is None:
                    rv = Adt("()", 0, {0: {}})
                self._emit(out, st, ("return", self.deep_force(rv, st)))
                return
            if term in ("unreachable;",):
                self._emit(out, st, ("unreachable",))
                return
            if term.startswith("resume") or term.startswith("abort"):
                self._emit(out, st, ("panic", "unwind"))
                return
            m = re.match(r"^goto -> (bb\d+);$", term)
            if m:
                bb = m.group(1)
                continue
            m = re.match(r"^switchInt\((.+)\) -> \[(.+)\];$", term)
            if m:
                v = self.eval_operand(m.group(1), fn, st)
                t = v.t
                targets = []
                for part in m.group(2).split(", "):
                    k, tb = part.split(": ")
                    targets.append((k.strip(), tb.strip()))
                taken = []
                for k, tb in targets:
                    if k == "otherwise":
                        if z3.is_bool(t):
                            cond = z3.And(*[z3.Not(c) for c in taken]) if taken else z3.BoolVal(True)
                        else:
                            cond = z3.And(*[z3.Not(c) for c in taken]) if taken else z3.BoolVal(True)
                    else:
                        kv = int(k)
                        if z3.is_bool(t):
                            cond = t if kv != 0 else z3.Not(t)
                        else:
                            cond = t == z3.BitVecVal(kv, t.size())
                        taken.append(cond)
                    cond = z3.simplify(cond)
                    if z3.is_false(cond):
                        continue
                    st2 = self._fork_state(st)
                    st2["pc"].append(cond)
                    if not z3.is_true(cond) and not self.feasible(st2["pc"]):
                        continue
                    self._run_block(fn, tb, st2, visited, out, depth)
                return
            m = re.match(r"^assert\((!?)(.+?), \"(.*?)\"(?:, .*)?\) -> \[success: (bb\d+), unwind[^\]]*\];$", term)
            if m:
                neg, opnd, msg, succ = m.group(1), m.group(2), m.group(3), m.group(4)
                c = self.eval_operand(opnd, fn, st).t
                ok = z3.Not(c) if neg else c
                ok = z3.simplify(ok)
                if not z3.is_true(ok):
                    st_bad = self._fork_state(st)
                    st_bad["pc"].append(z3.Not(ok))
                    if self.feasible(st_bad["pc"]):
                        self._emit(out, st_bad, ("panic", msg))
                    st["pc"].append(ok)
                    if not self.feasible(st["pc"]):
                        return
                bb = succ
                continue
            m = re.match(r"^drop\(.+\) -> \[return: (bb\d+), unwind[^\]]*\];$", term)
            if m:
                bb = m.group(1)
                continue
            m = re.match(r"^(?:(.+?) = )?(.+?)\((.*)\) -> \[return: (bb\d+), unwind[^\]]*\];$", term)
            if m:
                dest, callee, args_s, nxt = m.group(1), m.group(2), m.group(3), m.group(4)
                args = [self.eval_operand(a, fn, st) for a in RustDefs._split_top(args_s, ",") if a.strip()]
                stub = None
                for rx, tag in self.opaque_calls:
                    if re.search(rx, callee.strip()):
                        stub = tag
                        break
                if stub is not None:
                    self.fresh_n += 1
                    snap = self.event_snapshot.get(stub)
                    st["events"] = st.get("events", []) + [(stub, args) if snap is None else (stub, args, snap(self, args, st), self.fresh_n)]
                    if dest:
                        _, _, dty = self.parse_place(dest, fn)
                        self.assign(dest, Lazy(dty, "%s!%d" % (stub, self.fresh_n)), fn, st)
                    bb = nxt
                    continue
                results = self.call(callee.strip(), args, fn, st, depth)
                for item in results:
                    pc2, outcome = item[0], item[1]
                    st_after = item[2] if len(item) > 2 else None
                    st2 = self._fork_state(st_after if st_after is not None else st)
                    if st_after is not None:
                        # back in the caller's frame; the callee's frame is dead
                        callee_fid = st2["fid"]
                        st2["fid"] = st["fid"]
                        st2["locals"] = st2["frames"][st["fid"]]
                        st2["frames"].pop(callee_fid, None)
                    st2["pc"] = pc2
                    if outcome[0] == "return":
                        if dest:
                            self.assign(dest, outcome[1], fn, st2)
                        self._run_block(fn, nxt, st2, visited, out, depth)
                    else:
                        self._emit(out, st2, outcome)
                return
            m = re.match(r"^(?:(.+?) = )?(.+?)\((.*)\) -> unwind[^;]*;$", term)
            if m:
                # diverging call (panic!)
                self._emit(out, st, ("panic", "diverging call " + m.group(2)))
                return
            raise Untranslatable("terminator: " + term)

    def deep_force(self, v, st):
        v = self.force(v, st)
        return v

    def _emit(self, out, st, outcome):
        self.npaths += 1
        if self.npaths > self.max_paths:
            raise Untranslatable("path budget exceeded")
        p = Path(list(st["pc"]), outcome)
        p.events = list(st.get("events", []))
        p.state = st
        out.append(p)

    def exec_stmt(self, ln, fn, st):
        if ln.startswith("StorageLive") or ln.startswith("StorageDead") or ln == "nop;" or ln.startswith("FakeRead") \
                or ln.startswith("PlaceMention") or ln.startswith("Retag") or ln.startswith("AscribeUserType") \
                or ln.startswith("ConstEvalCounter") or ln.startswith("Coverage") or ln.startswith("debug ") \
                or ln.startswith("scope ") or ln.startswith("let ") or ln == "}":
            return
        m = re.match(r"^discriminant\((.+)\) = (\d+);$", ln)
        if m:
            base, path, ty = self.parse_place(m.group(1), fn)
            cur = self.read_local(base, path, st)
            nv = Adt(cur.ty, int(m.group(2)), cur.variants, cur.nm)
            self.assign(m.group(1), nv, fn, st)
            return
        # split "<place> = <rvalue>;"
        if not ln.endswith(";"):
            raise Untranslatable("statement: " + ln)
        body = ln[:-1]
        depth = 0
        eq = -1
        for i, c in enumerate(body):
            if c in "([{":
                depth += 1
            elif c in ")]}":
                depth -= 1
            elif c == "=" and depth == 0 and body[i - 1] == " " and body[i + 1] == " ":
                eq = i
                break
        if eq < 0:
            raise Untranslatable("statement: " + ln)
        place_s, rv = body[:eq].strip(), body[eq + 1:].strip()
        _, _, dty = self.parse_place(place_s, fn)
        val = self.eval_rvalue(rv, fn, st, dty)
        self.assign(place_s, val, fn, st)

    # ---- calls
    def call(self, callee, args, fn, st, depth):
        pc = list(st["pc"])
        cs = callee
        # whitelisted std functions -----------------------------------------
        m = re.match(r"^core::num::<impl (\w+)>::(\w+)$", cs)
        if m:
            ity, meth = m.group(1), m.group(2)
            return self.std_int_method(ity, meth, args, st, pc)
        m = re.match(r"^<(&?)(\w+) as (?:std::ops::|core::ops::)?(Add|Sub|Mul)(?:<(&?)\w+>)?>::(add|sub|mul)$", cs)
        if m and m.group(2) in INT_TYPES:
            a = self.force(args[0], st)
            b = self.force(args[1], st)
            if isinstance(a, Ref):
                a = self.read_path(a, [("deref",)], st)
            if isinstance(b, Ref):
                b = self.read_path(b, [("deref",)], st)
            op = m.group(3)
            if self.overflow_checks:
                r = self.binop(op + "WithOverflow", a, b)
                val, ovf = r.variants[0][0], z3.simplify(r.variants[0][1].t)
                res = []
                if not z3.is_false(ovf) and self.feasible(pc + [ovf]):
                    res.append((pc + [ovf], ("panic", "attempt to %s with overflow" % op.lower())))
                res.append((pc + [z3.Not(ovf)], ("return", val)))
                return res
            return [(pc, ("return", self.binop(op, a, b)))]
        m = re.match(r"^<(.+) as (?:std::cmp::|core::cmp::)?PartialEq(?:<.*>)?>::(eq|ne)$", cs)
        if m:
            target = self.find_derived(m.group(1), m.group(2))
            if target is not None:
                return [(p.pc, p.outcome, p.state) for p in self.run_fn(target, args, pc, depth + 1, st_in=st)]
            base = strip_path(deref_ty(m.group(1)))
            if base in INT_TYPES or base == "bool" or True:
                # primitive / opaque (bitwise-comparable handle types are declared in OPAQUE_EQ)
                a0 = self.force(args[0], st)
                inner = self.read_path(a0, [("deref",)], st) if isinstance(a0, Ref) else a0
                if isinstance(inner, Sc) and (inner.ty in INT_TYPES or inner.ty == "bool" or inner.ty.startswith("opaque:")):
                    e = self.val_eq(args[0], args[1], st)
                    return [(pc, ("return", Sc(e if m.group(2) == "eq" else z3.Not(e), "bool")))]
            raise Untranslatable("PartialEq impl for %s not found in dumps" % m.group(1))
        m = re.match(r"^<(.+) as (?:std::ops::|core::ops::)?Try>::branch$", cs)
        if m and strip_path(m.group(1)) == "Option":
            v = self.force(args[0], st)
            res = []
            d = self.discr_of(v, st)
            for vidx in (0, 1):
                c = z3.simplify(d == z3.BitVecVal(vidx, 64))
                if z3.is_false(c):
                    continue
                pc2 = pc + [c]
                if not z3.is_true(c) and not self.feasible(pc2):
                    continue
                if vidx == 1:
                    payload = self.field_get(v, 1, 0, split_generic_args(m.group(1))[0] if split_generic_args(m.group(1)) else "?", st)
                    res.append((pc2, ("return", Adt("ControlFlow", 0, {0: {0: payload}}))))
                else:
                    res.append((pc2, ("return", Adt("ControlFlow", 1, {1: {0: Adt("Option<Infallible>", 0, {0: {}})}}))))
            return res
        m = re.match(r"^<(.+) as (?:std::ops::|core::ops::)?FromResidual<.*>>::from_residual$", cs)
        if m and strip_path(m.group(1)) == "Option":
            return [(pc, ("return", Adt(m.group(1), 0, {0: {}})))]
        m = re.match(r"^(?:std::option::|core::option::)?Option::<(.+?)>::map::<(.+), (\{closure@[^}]+\})>$", cs)
        if m:
            opt = self.force(args[0], st)
            clo = args[1]
            target = None
            for n, f in self.fns.items():
                if f.params and f.params[0][1].strip() == m.group(3) and "{closure#" in n:
                    target = f
            if target is None:
                raise Untranslatable("closure body for %s" % m.group(3))
            d = self.discr_of(opt, st)
            res = []
            for vidx in (0, 1):
                c = z3.simplify(d == z3.BitVecVal(vidx, 64))
                if z3.is_false(c):
                    continue
                pc2 = pc + [c]
                if not z3.is_true(c) and not self.feasible(pc2):
                    continue
                if vidx == 0:
                    res.append((pc2, ("return", Adt("Option<%s>" % m.group(2), 0, {0: {}}))))
                else:
                    payload = self.field_get(opt, 1, 0, m.group(1), st)
                    for p in self.run_fn(target, [clo, payload], pc2, depth + 1, st_in=st):
                        if p.outcome[0] == "return":
                            res.append((p.pc, ("return", Adt("Option<%s>" % m.group(2), 1, {1: {0: p.outcome[1]}})), p.state))
                        else:
                            res.append((p.pc, p.outcome, p.state))
            return res
        m = re.match(r"^(?:std::option::|core::option::)?Option::<.+>::(is_none|is_some)$", cs)
        if m:
            a0 = self.force(args[0], st)
            v = self.read_path(a0, [("deref",)], st) if isinstance(a0, Ref) else a0
            d = self.discr_of(v, st)
            want = 0 if m.group(1) == "is_none" else 1
            return [(pc, ("return", Sc(d == z3.BitVecVal(want, 64), "bool")))]
        m = re.match(r"^<(.+) as Clone>::clone$", cs)
        if m:
            a0 = self.force(args[0], st)
            return [(pc, ("return", self.read_path(a0, [("deref",)], st)))]
        # functions in the loaded dumps ---------------------------------------
        target = self.resolve(cs, fn)
        if target is not None:
            return [(p.pc, p.outcome, p.state) for p in self.run_fn(target, args, pc, depth + 1, st_in=st)]
        raise Untranslatable("call to %s" % cs)

    def resolve(self, cs, fn):
        if cs in self.fns:
            return self.fns[cs]
        # names are printed relative to the crate root in their own crate's dump
        tail = cs.split("::")[-1]
        cands = [f for n, f in self.fns.items() if n == cs or n.endswith("::" + cs) or cs.endswith("::" + n)]
        if len(cands) == 1:
            return cands[0]
        segs = self._path_segments(cs)
        if len(segs) >= 2:
            tyname, meth = segs[-2], segs[-1]
            cands = []
            for n, f in self.fns.items():
                if "<impl at" in n and n.endswith(">::" + meth) and f.params:
                    if strip_path(deref_ty(f.params[0][1])) == tyname:
                        cands.append(f)
            if len(cands) == 1:
                return cands[0]
        return None

    def find_derived(self, ty, meth):
        want = self._path_segments(deref_ty(ty))
        cands = []
        for n, f in self.fns.items():
            if n.endswith(">::" + meth) and "<impl at" in n and len(f.params) == 2:
                have = self._path_segments(deref_ty(f.params[0][1]))
                k = min(len(want), len(have))
                if k and want[-k:] == have[-k:]:
                    cands.append(f)
        if len(cands) == 1:
            return cands[0]
        return None

    def std_int_method(self, ity, meth, args, st, pc):
        w, sg = INT_TYPES[ity]
        a = self.force(args[0], st)
        if meth in ("to_be_bytes", "to_le_bytes", "to_ne_bytes"):
            return [(pc, ("return", Sc(a.t, "bytes:%s:%s" % (meth[3:5], ity))))]
        if meth in ("from_be_bytes", "from_le_bytes", "from_ne_bytes"):
            if not a.ty.startswith("bytes:" + meth[5:7]):
                raise Untranslatable("byte-order mismatch in " + meth)
            return [(pc, ("return", Sc(a.t, ity)))]
        if len(args) >= 2:
            b = self.force(args[1], st)
        ext = (lambda x: z3.SignExt(w, x)) if sg else (lambda x: z3.ZeroExt(w, x))
        if meth in ("wrapping_add", "wrapping_sub", "wrapping_mul"):
            op = {"wrapping_add": "Add", "wrapping_sub": "Sub", "wrapping_mul": "Mul"}[meth]
            return [(pc, ("return", self.binop(op, a, b)))]
        if meth == "wrapping_neg":
            return [(pc, ("return", Sc(-a.t, ity)))]
        if meth in ("checked_add", "checked_sub", "checked_mul"):
            if meth == "checked_add":
                wide, r = ext(a.t) + ext(b.t), a.t + b.t
            elif meth == "checked_sub":
                wide, r = ext(a.t) - ext(b.t), a.t - b.t
            else:
                wide, r = ext(a.t) * ext(b.t), a.t * b.t
            ovf = wide != ext(r)
            return self._option_fork(pc, ovf, Sc(r, ity), "Option<%s>" % ity)
        if meth == "checked_neg":
            ovf = (a.t == z3.BitVecVal(-(1 << (w - 1)), w)) if sg else (a.t != 0)
            return self._option_fork(pc, ovf, Sc(-a.t, ity), "Option<%s>" % ity)
        if meth in ("checked_div", "checked_rem", "checked_div_euclid", "checked_rem_euclid") and not meth.endswith("euclid"):
            bad = b.t == 0
            if sg:
                bad = z3.Or(bad, z3.And(a.t == z3.BitVecVal(-(1 << (w - 1)), w), b.t == z3.BitVecVal(-1, w)))
            if meth == "checked_div":
                r = (a.t / b.t) if sg else z3.UDiv(a.t, b.t)
            else:
                r = z3.SRem(a.t, b.t) if sg else z3.URem(a.t, b.t)
            return self._option_fork(pc, bad, Sc(r, ity), "Option<%s>" % ity)
        if meth in ("wrapping_div", "wrapping_rem"):
            res = []
            z = z3.simplify(b.t == 0)
            if not z3.is_false(z) and self.feasible(pc + [z]):
                res.append((pc + [z], ("panic", "division by zero in " + meth)))
            r = (a.t / b.t) if meth == "wrapping_div" else z3.SRem(a.t, b.t)
            if not sg:
                r = z3.UDiv(a.t, b.t) if meth == "wrapping_div" else z3.URem(a.t, b.t)
            res.append((pc + [z3.Not(z)], ("return", Sc(r, ity))))
            return res
        if meth in ("wrapping_shl", "wrapping_shr"):
            return [(pc, ("return", self.binop("Shl" if meth.endswith("shl") else "Shr", a, b)))]
        if meth in ("overflowing_add", "overflowing_sub", "overflowing_mul"):
            op = {"overflowing_add": "AddWithOverflow", "overflowing_sub": "SubWithOverflow", "overflowing_mul": "MulWithOverflow"}[meth]
            return [(pc, ("return", self.binop(op, a, b)))]
        if meth == "abs" and sg:
            return [(pc, ("return", Sc(z3.If(a.t < 0, -a.t, a.t), ity)))]
        raise Untranslatable("std method %s::%s" % (ity, meth))

    def _option_fork(self, pc, none_cond, some_val, ty):
        res = []
        nc = z3.simplify(none_cond)
        if not z3.is_false(nc) and self.feasible(pc + [nc]):
            res.append((pc + [nc], ("return", Adt(ty, 0, {0: {}}))))
        if not z3.is_true(nc) and self.feasible(pc + [z3.Not(nc)]):
            res.append((pc + [z3.Not(nc)], ("return", Adt(ty, 1, {1: {0: some_val}}))))
        return res


def signed_bits(t, depth=0):
    """conservative number of bits needed to hold t as a signed integer (sound upper bound)"""
    w = t.size()
    if depth > 40:
        return w
    k = t.decl().kind()
    if z3.is_bv_value(t):
        v = t.as_signed_long()
        return min(w, (v.bit_length() if v >= 0 else (-v - 1).bit_length()) + 1)
    if k == z3.Z3_OP_SIGN_EXT:
        return min(w, signed_bits(t.arg(0), depth + 1))
    if k == z3.Z3_OP_ZERO_EXT:
        return min(w, t.arg(0).size() + 1)
    if k in (z3.Z3_OP_BADD, z3.Z3_OP_BSUB):
        return min(w, max(signed_bits(a, depth + 1) for a in t.children()) + len(t.children()) - 1)
    if k == z3.Z3_OP_BNEG:
        return min(w, signed_bits(t.arg(0), depth + 1) + 1)
    if k == z3.Z3_OP_BMUL:
        return min(w, sum(signed_bits(a, depth + 1) for a in t.children()))
    if k == z3.Z3_OP_ITE:
        return min(w, max(signed_bits(t.arg(1), depth + 1), signed_bits(t.arg(2), depth + 1)))
    return w


def narrow_signed_divrem(op, ta, tb):
    """signed Div/Rem of w-bit terms whose values provably fit in k < w bits is computed at k+1
    bits (no INT_MIN/-1 wrap possible there) and sign-extended: same value, much cheaper to
    bit-blast (64-bit division is what makes the trip-count kernel expensive)."""
    w = ta.size()
    k = max(signed_bits(ta), signed_bits(tb)) + 1
    if k >= w:
        return (ta / tb) if op == "Div" else z3.SRem(ta, tb)
    a, b = z3.Extract(k - 1, 0, ta), z3.Extract(k - 1, 0, tb)
    r = (a / b) if op == "Div" else z3.SRem(a, b)
    return z3.SignExt(w - k, r)
