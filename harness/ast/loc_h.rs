// Child module of samlang-ast/src/loc.rs (scratch copy only): Kani harnesses for the Location algebra (C14 i).
#![allow(dead_code, unused_imports)]
use super::*;

#[cfg(kani)]
fn any_loc() -> Location {
  let l = Location::from_pos(kani::any(), kani::any(), kani::any(), kani::any());
  kani::assume(l.start <= l.end); // well-formed locations only
  l
}

#[cfg(kani)]
#[kani::proof]
fn union_is_least_upper_bound() {
  let a = any_loc();
  let b = any_loc();
  let u = a.union(&b);
  assert!(u.start <= u.end);
  assert!(u.contains(&a) && u.contains(&b));
  // least: any location containing both contains the union
  let c = any_loc();
  if c.contains(&a) && c.contains(&b) {
    assert!(c.contains(&u));
  }
  // commutative, idempotent, the endpoints come from the arguments
  assert!(u == b.union(&a));
  assert!(a.union(&a) == a);
  assert!(u.start == a.start || u.start == b.start);
  assert!(u.end == a.end || u.end == b.end);
  assert!(u.module_reference == a.module_reference);
  kani::cover!(a.start < b.start && a.end < b.end && a.end.0 > b.start.0);
}

#[cfg(kani)]
#[kani::proof]
fn contains_is_a_partial_order() {
  let a = any_loc();
  let b = any_loc();
  let c = any_loc();
  assert!(a.contains(&a));
  if a.contains(&b) && b.contains(&c) {
    assert!(a.contains(&c));
  }
  if a.contains(&b) && b.contains(&a) {
    assert!(a.start == b.start && a.end == b.end);
  }
  let p = Position(kani::any(), kani::any());
  assert!(a.contains_position(p) == (a.start <= p && p <= a.end));
  if a.contains(&b) && b.contains_position(p) {
    assert!(a.contains_position(p));
  }
  // positions are ordered line first, then column
  let q = Position(kani::any(), kani::any());
  assert!((p < q) == (p.0 < q.0 || (p.0 == q.0 && p.1 < q.1)));
  kani::cover!(a.contains(&b) && !(b.contains(&a)));
}
