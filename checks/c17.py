"""C17 (E-K): Kani harnesses over the real samlang-heap code (harness/heap/heap_h.rs)."""
import concurrent.futures
import os
import re
import time

from vlib import kani
from vlib.common import Inconclusive, Scratch, log

REPR = ["repr_inline_roundtrip", "repr_from_string_agrees", "repr_long_strings_are_not_inlined", "repr_eq_iff_same_string",
        "repr_id_roundtrip", "repr_inline_and_id_never_collide", "repr_const_literal_ctors"]
GC = ["gc_sweep_w1", "gc_sweep_w2", "gc_sweep_w3", "gc_sweep_w5", "gc_sweep_blocked_by_unmarked_module", "gc_sweep_blocked_mid_table", "gc_pending_modules_protocol", "gc_sweep_rest_with_huge_work_unit", "gc_sweep_resumes_at_index", "gc_partial_sweep_then_alloc",
      "gc_mark_step", "marked_survives_one_round_only", "promote_static_makes_slot_permanent",
      "make_permanent_then_sweep", "realloc_after_reclaim_is_fresh", "temp_counter_sync_never_drops_a_slot", "gc_mark_behind_cursor_survives_round_end"]
GC_THOROUGH = ["alloc_string_interns"]

USE_LINE = "  collections::{HashMap, HashSet},\n"


def prepare(sc):
    p = os.path.join(sc.w, "crates/samlang-heap/src/lib.rs")
    s = open(p).read()
    if USE_LINE not in s:
        raise Inconclusive("encoding could not be regenerated: the `use std::{collections::{HashMap, HashSet}, ..}` item of samlang-heap changed; container model cannot be swapped in")
    s = s.replace(USE_LINE, "", 1)
    s += ('\n#[cfg(kani)]\n#[path = "/verif/harness/heap/vmodel.rs"]\nmod vmodel;\n#[cfg(kani)]\nuse vmodel::{HashMap, HashSet};\n'
          '#[cfg(not(kani))]\nuse std::collections::{HashMap, HashSet};\n')
    open(p, "w").write(s)
    sc.append_child_module("crates/samlang-heap/src/lib.rs", "/verif/harness/heap/heap_h.rs", "verif_harness")


def run(res, tier, a):
    harnesses = REPR + GC + (GC_THOROUGH if tier != "quick" else [])
    per_cap = 1500 if tier == "quick" else 3000
    t0 = time.time()
    results = {}
    with Scratch("C17") as sc:
        prepare(sc)
        # one cargo-kani process per group, each with its own target dir (concurrent runs must not share one)
        groups = [REPR] + [[h] for h in GC] + ([[h] for h in GC_THOROUGH] if tier != "quick" else [])
        with concurrent.futures.ThreadPoolExecutor(max_workers=len(groups)) as ex:
            futs = {ex.submit(kani.run_harnesses, sc, "samlang-heap", g, per_cap * len(g), 12, (), "kani%d" % i): g for i, g in enumerate(groups)}
            for f in concurrent.futures.as_completed(futs):
                try:
                    r, out = f.result()
                except Inconclusive as e:
                    res.inconc(str(e)[:2000])
                    continue
                results.update(r)
    judge(res, results, harnesses, "samlang-heap")
    res.coverage.update({
        "states": sum(1 for h in harnesses if results.get(h, {}).get("status") == "SUCCESSFUL") or 1,
        "transitions": len(harnesses),
        "traces_validated_against_impl": 0,
        "harnesses": {h: {k: v for k, v in results.get(h, {}).items() if k in ("status", "time", "covers_summary", "failed_checks")} for h in harnesses},
        "bounds": {"inline strings": "all byte strings <= 15 bytes without 0xFF (superset of valid UTF-8)", "eq/ord": "<= 6 bytes each",
                   "gc": "fixed small tables (1-3 slots, concrete 16-19 byte contents, concrete kinds and marks); symbolic: the marked slot (gc_mark_step), "
                         "the chosen string and generation (alloc_string_interns, thorough). A symbolic table was measured to exhaust memory (> 25 GB) and is not claimed.",
                   "unwind": "17-22 with unwinding assertions"},
        "explanation": "states = harnesses proved; transitions = harnesses run; each harness is one symbolic step from an arbitrary valid state",
        "kani_wall_s": round(time.time() - t0, 1),
    })
    res.assumptions += [
        "Kani 0.68 / CBMC 6.11 (cadical) translation of the compiled crate",
        "std HashMap/HashSet replaced by an association-vector model (harness/heap/vmodel.rs): assumes std's maps are correct finite maps",
        "strings in the GC table are concrete 17-byte literals; their contents are not symbolic",
        "cfg!(test) is false under Kani: Deallocated(None) as in release builds",
    ]
    for h in harnesses:
        res.sample({"harness": h, **{k: v for k, v in results.get(h, {}).items() if k in ("status", "time", "covers_summary")}})


def judge(res, results, harnesses, crate):
    for h in harnesses:
        r = results.get(h)
        if r is None or r["status"] in ("MISSING", "UNKNOWN"):
            res.inconc("harness %s did not run (renamed item / build failure?)" % h)
        elif r["status"] == "SUCCESSFUL":
            cs = r.get("covers_summary")
            if cs and cs[0] == 0:
                res.inconc("harness %s is vacuous: no cover property satisfied" % h)
        elif r["status"] == "FAILED":
            # unwinding-assertion failures are a bound problem, not a property violation
            fc = " | ".join(r["failed_checks"])
            if r["failed_checks"] and all("unwinding assertion" in c for c in r["failed_checks"]):
                res.inconc("harness %s: unwinding bound too small (%s)" % (h, fc[:300]))
            else:
                res.violation("Kani harness %s::%s fails: %s" % (crate, h, fc[:600]),
                              {"engine": "E-K", "crate": crate, "harness": h, "failed_checks": r["failed_checks"],
                               "replay": "cargo kani -p %s --harness %s -Z concrete-playback --concrete-playback=print (in the scratch copy prepared by checks/c17.py)" % (crate, h)})
        else:
            res.inconc("harness %s: %s" % (h, r["status"]))
