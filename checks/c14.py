"""C05 / C14 (E-K): Kani harnesses over the hand-written lexer scanners and the Location algebra."""
import concurrent.futures
import os
import time

from vlib import kani
from vlib.common import Inconclusive, Scratch
from checks.c17 import judge

LOC = ["union_is_least_upper_bound", "contains_is_a_partial_order"]
SCAN = ["scan_skip_whitespace", "scan_skip_whitespace_fixed_shapes", "scan_string_literal", "scan_string_literal_short", "scan_string_literal_multibyte", "scan_string_literal_two_byte_fixed", "scan_line_comment", "scan_block_comment", "scan_block_comment_fixed_shapes", "scan_escape_validation_total"]


def prepare(sc):
    sc.append_child_module("crates/samlang-parser/src/lexer.rs", "/verif/harness/parser/lexer_h.rs", "verif_harness")
    sc.append_child_module("crates/samlang-ast/src/loc.rs", "/verif/harness/ast/loc_h.rs", "verif_harness")


def run(res, tier, a, prop):
    per_cap = 900 if tier == "quick" else 3000
    t0 = time.time()
    results = {}
    want_loc = prop == "C14"
    with Scratch(prop) as sc:
        prepare(sc)
        groups = [("samlang-parser", [h]) for h in SCAN]
        if want_loc:
            groups.append(("samlang-ast", LOC))
        with concurrent.futures.ThreadPoolExecutor(max_workers=len(groups)) as ex:
            futs = {ex.submit(kani.run_harnesses, sc, crate, g, per_cap * len(g), 12, ("-Z", "stubbing"), "kani%d" % i): (crate, g) for i, (crate, g) in enumerate(groups)}
            for f in concurrent.futures.as_completed(futs):
                try:
                    r, out = f.result()
                except Inconclusive as e:
                    res.inconc(str(e)[:2000])
                    continue
                results.update(r)
    harnesses = SCAN + (LOC if want_loc else [])
    judge(res, results, harnesses, "samlang-parser / samlang-ast")
    crash_rows = []
    if prop == "C05":
        crash_rows = crash_corpus(res)
    if prop == "C14":
        res.coverage["merged_token_location"] = merged_token_location(res)
        from checks import c14locs
        res.coverage["syntax_ranges"] = c14locs.run(res, tier)
        res.assumptions.append("syntax_ranges is a gate, not a solver verdict: the parser's assembly of node ranges cannot be encoded; the real lexer + parser "
                               "run on the corpus programs (and the repository's tests/ and std/) under 7 layouts of the same token sequence and every range "
                               "of the syntax tree is checked for containment in the document and in its parent, exact names, disjoint siblings, token "
                               "boundaries and layout independence of its token span")
        res.assumptions.append("merged_token_location (E-M): Location::union is a stub constrained by the contract the Kani harness "
                               "union_is_least_upper_bound proves; str::parse, format!, alloc_string, error reporting are opaque stubs")
    res.coverage.update({
        "states": sum(1 for h in harnesses if results.get(h, {}).get("status") == "SUCCESSFUL") or 1,
        "transitions": len(harnesses),
        "traces_validated_against_impl": 0,
        "harnesses": {h: {k: v for k, v in results.get(h, {}).items() if k in ("status", "time", "covers_summary", "failed_checks")} for h in harnesses},
        "bounds": {"input": "every ASCII byte string of length <= 6 (5 for the comment scanners / escape validation), symbolic length and bytes; symbolic start position < 1000 for skip_whitespace",
                   "unwind": "8-9 with unwinding assertions"},
        "explanation": "states = harnesses proved; each harness runs one hand-written scanner of the real lexer on an arbitrary bounded input",
        "kani_wall_s": round(time.time() - t0, 1),
    })
    if crash_rows:
        res.coverage["crash_regression_corpus"] = crash_rows
        res.assumptions.append("crash_regression_corpus is a gate, not a solver verdict: each input of /verif/corpus_crash (inputs that once crashed the "
                               "front end, or were reported to) is run through the real parser + checker and must end with a result or diagnostics")
    res.assumptions += [
        "Kani 0.68 / CBMC 6.11 translation of the compiled crate",
        "environment stub: String::from_utf8_lossy returns an empty string in the two comment-scanner harnesses (the comment text is not checked)",
        "ASCII input only (bytes < 128), except scan_string_literal_multibyte: string literals of up to three characters each either one ASCII byte or U+00E9",
        "the logos-generated DFA, keyword/operator recognition, the parser and every consumer of locations are outside the claim",
    ]
    for h in harnesses:
        res.sample({"harness": h, **{k: v for k, v in results.get(h, {}).items() if k in ("status", "time", "covers_summary")}})


def crash_corpus(res):
    """C05 gate (not a solver verdict): inputs that once made the front end panic must now produce a result or
    diagnostics.  The parser and checker proper are outside what the Kani harnesses can encode."""
    import glob
    import subprocess
    from vlib import ws
    from vlib.common import VERIF
    rows = []
    with Scratch(os.environ.get("VERIF_SLOT", "ws")) as sc:
        ws.inject(sc)
        drv = ws.build_driver(sc)
        for f in sorted(glob.glob(os.path.join(VERIF, "corpus_crash", "*.sam"))):
            try:
                p = subprocess.run([drv, "survive", f], capture_output=True, text=True, timeout=60)
                st = "ok" if p.returncode == 0 and p.stdout.strip().startswith("{") else "crash (exit %d)" % p.returncode
            except subprocess.TimeoutExpired:
                st = "hang (> 60 s)"
            rows.append({"input": os.path.basename(f), "status": st})
            if st != "ok":
                res.violation("the front end does not survive the input %s: %s" % (os.path.basename(f), st),
                              {"property": "C05", "input_file": f, "input": open(f, errors="replace").read()[:400], "status": st})
    rows += parser_progress_corpus(res, drv)
    rows += stress_corpus(res, drv)
    return rows


def stress_inputs():
    """name -> module text: "reasonably sized" inputs that are long or deep in one dimension.  Nesting depth and
    expression length stay at or below 1000: the recursive-descent parser and the tree walkers have no depth guard and
    overflow the 8 MB main-thread stack of a release build at about 1500 unclosed braces / 2000 terms of a sum, which
    is recorded as an observation in DESIGN.md, not as a violation (C05 speaks of reasonably sized input)."""
    main = "\nclass Main { function g(a: int): int = a  function main(): unit = {  } }\n"
    out = {}
    out["line_comment_70_short_words"] = "// " + " ".join("-" for _ in range(70)) + main
    out["block_comment_40_short_words"] = "/* " + " ".join("10" for _ in range(40)) + " */" + main
    out["doc_comment_45_short_words"] = "/** " + " ".join("ab" for _ in range(45)) + " */" + main
    out["comment_of_3000_characters"] = "// " + "x" * 3000 + main

    def nest_if(d):
        e = "0"
        for i in range(d):
            e = "if a > %d { %d } else { %s }" % (i, i, e)
        return e
    for d in (8, 14, 24):
        out["if_in_else_block_depth_%d" % d] = "class A { function f(a: int): int = %s }" % nest_if(d) + main
    out["else_if_chain_60"] = "class A { function f(a: int): int = %s else { 0 } }" % " else ".join("if a > %d { %d }" % (i, i) for i in range(60)) + main
    for d in (200, 1000):
        out["parentheses_depth_%d" % d] = "class A { function f(a: int): int = %s a %s }" % ("(" * d, ")" * d) + main
        out["blocks_depth_%d" % d] = "class A { function f(a: int): int = %s a %s }" % ("{ " * d, " }" * d) + main
    out["statements_5000"] = "class A { function f(a: int): unit = { %s } }" % " ".join("let _ = Main.g(1);" for _ in range(5000)) + main
    out["string_literal_20000"] = 'class A { function f(): Str = "%s" }' % ("s" * 20000) + main
    out["identifier_5000"] = "class A { function f(%s: int): int = 1 }" % ("v" * 5000) + main
    out["members_600"] = "class A { %s }" % " ".join("function f%d(a: int): int = a + %d" % (i, i) for i in range(600)) + main
    out["match_arms_16_variants_nested"] = "class E(%s) { method m(): int = match this { %s } }" % (
        ", ".join("V%d(int)" % i for i in range(16)), ", ".join("V%d(x) -> x + %d" % (i, i) for i in range(16))) + main
    out["type_nesting_60"] = "import { Option } from std.option;\nclass A { function f(x: %sint%s): int = 1 }" % ("Option<" * 60, ">" * 60) + main
    out["sum_of_1000_terms"] = "class A { function f(a: int): int = %s }" % " + ".join("a" for _ in range(1000)) + main
    out["negations_600"] = "class A { function f(a: bool): bool = %sa }" % ("!" * 600) + main
    out["call_chain_300"] = "class B(val v: int) { method n(): B = this }\nclass A { function f(b: B): B = b%s }" % (".n()" * 300) + main
    out["lambda_nesting_80"] = "class A { function f(): int = %s 1 %s }" % ("(() -> " * 80, ")()" * 80) + main
    out["unclosed_braces_800"] = "class A { function f(): int = " + "{ " * 800
    out["closing_parens_3000"] = "class A { function f(): int = 1 " + ") " * 3000 + "}"
    out["commas_3000"] = "class A { function f(): int = A.f(" + "," * 3000 + ") }"
    return out


def stress_corpus(res, drv):
    """C05 gate (not a solver verdict): inputs that are long or deep in one dimension go through every stage C05 names
    (driver `survive`: parse, check, render diagnostics in both formats, format, compile) under a 20 s / 2 GB limit."""
    import concurrent.futures
    import shutil
    import subprocess
    import tempfile
    from vlib.common import load_known
    known = {k.get("stress_input"): k for k in load_known("C05") if k.get("stress_input")}
    d = tempfile.mkdtemp(prefix="c05stress", dir="/var/tmp")
    jobs = []
    for name, text in stress_inputs().items():
        path = os.path.join(d, name + ".sam")
        open(path, "w").write(text)
        jobs.append((name, path))

    def one(job):
        name, path = job
        t0 = time.time()
        try:
            p = subprocess.run(["prlimit", "--as=2000000000", drv, "survive", path], capture_output=True, text=True, timeout=20)
            st = "ok" if p.returncode == 0 and p.stdout.strip().startswith("{") else "crash (exit %d): %s" % (p.returncode, p.stderr.strip().split("\n")[-1][:160])
        except subprocess.TimeoutExpired:
            st = "hang (> 20 s)"
        return name, path, st, round(time.time() - t0, 2)
    rows = []
    with concurrent.futures.ThreadPoolExecutor(max_workers=6) as ex:
        for name, path, st, secs in ex.map(one, jobs):
            rows.append({"input": "stress:" + name, "status": st, "seconds": secs})
            if st == "ok":
                continue
            if name in known:
                res.known("%s %s" % (known[name]["id"], known[name]["short"]))
                continue
            res.violation("the front end does not survive the stress input %s: %s" % (name, st),
                          {"property": "C05", "stress_input": name, "input_head": open(path).read()[:300], "status": st})
    shutil.rmtree(d, ignore_errors=True)
    return rows


PROGRESS_TEMPLATES = {
    "match_arm": "class A { function f(x: int): int = match (x) { a -> 1, HOLE } }",
    "match_arm_unclosed": "class A { function f(x: int): int = match (x) { a -> 1, HOLE  function g(): int = 1 }",
    "match_scrutinee": "class A { function f(): int = match HOLE { a -> 1 } }",
    "block_statement": "class A { function f(): int = { let a = 1; HOLE; a } }",
    "block_only": "class A { function f(): int = { HOLE } }",
    "call_argument": "class A { function f(): int = A.g(1, HOLE) }",
    "call_argument_unclosed": "class A { function f(): int = A.g(1, HOLE }",
    "class_member": "class A { HOLE function f(): int = 1 }",
    "class_field": "class A(val a: int, HOLE) {}",
    "variant": "class A(B, HOLE) {}",
    "import_name": "import { A, HOLE } from M;\nclass C {}",
    "type_parameter": "class A<T, HOLE> {}",
    "type_argument": "class A { function f(): Option<HOLE> = 1 }",
    "tuple_pattern": "class A { function f(): int = { let (a, HOLE) = t; 1 } }",
    "object_pattern": "class A { function f(): int = { let { a, HOLE } = t; 1 } }",
    "lambda_parameter": "class A { function f(): int = ((a, HOLE) -> 1)(1, 2) }",
    "if_condition": "class A { function f(): int = if HOLE { 1 } else { 2 } }",
    "if_let_pattern": "class A { function f(): int = if let HOLE = x { 1 } else { 2 } }",
    "interface_member": "interface I { HOLE method f(): int }",
    "toplevel": "HOLE class A {}",
    "function_parameter": "class A { function f(a: int, HOLE): int = 1 }",
    "supertype": "class A : I, HOLE {}",
    "binary_operand": "class A { function f(): int = 1 + HOLE }",
    "return_annotation": "class A { function f(): HOLE = 1 }",
}
PROGRESS_TOKENS = ["", "class", "interface", "val", "function", "method", "private", "import", "from", "let", "if", "else", "match", "true", "this", "as",
                   "unit", "int", "bool", "(", ")", "{", "}", "[", "]", ",", ";", ":", "::", ".", "->", "=", "|", "&&", "||", "!", "+", "-", "*", "<", ">",
                   "==", "...", "1", "\"s\"", "a", "A", "#", "@", "'", "\"", "/*", "//", "_", "a.b", "A.b(", "A<", "2147483648",
                   # characters outside ASCII: every one of them is an invalid token outside strings and comments
                   "\u00e9", "#caf\u00e9", "caf\u00e9 }", "\u540d\u524d", "a\u00a0b", "\U0001F642\U0001F642", "#\u00e9}", "\"\u00e9\"", "/* \u00e9 */ \u00e9", "x\u2028y"]


def parser_progress_corpus(res, drv):
    """C05 gate (not a solver verdict): every loop of the recursive-descent parser that reads a delimited list must
    make progress on any token.  Each template has a hole at such a position; every kind of token (keywords, operators,
    literals, identifiers, lexer error tokens, nothing) is put there and the real parser + checker must end with a
    result or diagnostics within the time limit."""
    import concurrent.futures
    import subprocess
    import tempfile
    d = tempfile.mkdtemp(prefix="c05prog", dir="/var/tmp")
    jobs = []
    for tn, tpl in PROGRESS_TEMPLATES.items():
        for k, tok in enumerate(PROGRESS_TOKENS):
            path = os.path.join(d, "%s_%d.sam" % (tn, k))
            open(path, "w").write(tpl.replace("HOLE", tok) + "\n")
            jobs.append((tn, tok, path))

    def one(job):
        tn, tok, path = job
        try:
            p = subprocess.run(["prlimit", "--as=2000000000", drv, "survive", path], capture_output=True, text=True, timeout=20)
            return job, ("ok" if p.returncode == 0 and p.stdout.strip().startswith("{") else "crash (exit %d)" % p.returncode)
        except subprocess.TimeoutExpired:
            return job, "hang (> 20 s)"
    bad = {}
    n = 0
    with concurrent.futures.ThreadPoolExecutor(max_workers=12) as ex:
        for (tn, tok, path), st in ex.map(one, jobs):
            n += 1
            if st != "ok":
                bad.setdefault((tn, st.split(" ")[0]), []).append((tok, path, st))
    for (tn, kind), items in sorted(bad.items()):
        tok, path, st = items[0]
        res.violation("the front end does not survive %d input(s) of the form `%s` (e.g. HOLE = `%s`): %s"
                      % (len(items), PROGRESS_TEMPLATES[tn], tok, st),
                      {"property": "C05", "template": tn, "input": open(path).read(), "status": st, "tokens": [t for t, _, _ in items][:20]})
    import shutil
    shutil.rmtree(d, ignore_errors=True)
    return [{"input": "parser progress corpus: %d templates x %d tokens" % (len(PROGRESS_TEMPLATES), len(PROGRESS_TOKENS)), "status": "ok" if not bad else "%d failing" % sum(len(v) for v in bad.values()), "programs": n}]


def merged_token_location(res):
    """C14, E-M on the rustc MIR of TokenProducer::process_raw_token: on every path that merges a pending `-` with the
    literal 2147483648 into one token, the location of the merged token starts where the minus sign starts and ends
    where the digits end, for ALL locations of the two tokens such that the minus sign ends before the digits start
    (any amount of layout in between, on any lines).  A witness is replayed through the real lexer + parser."""
    import json
    import z3
    from vlib import mir, smt, ws
    from vlib.mir import Lazy, Adt
    from checks import c06
    out = {"paths": 0, "merging_paths": 0, "obligations": 0, "discharged": 0, "replays": 0}
    with Scratch(os.environ.get("VERIF_SLOT", "ws")) as sc:
        ws.inject(sc)
        drv = ws.Driver(ws.build_driver(sc))
        defs = mir.RustDefs()
        defs.load_source(open(os.path.join(sc.w, "crates/samlang-parser/src/lexer.rs")).read())
        defs.load_source(open(os.path.join(sc.w, "crates/samlang-ast/src/loc.rs")).read())
        fns = mir.parse_dump(ws.mir_dump(sc, "samlang-parser", False), "parser")
        cands = [f for n, f in fns.items() if n.endswith("::process_raw_token")]
        if len(cands) != 1 or "Location" not in defs.structs or "Position" not in defs.structs:
            raise Inconclusive("encoding could not be regenerated: process_raw_token / Location / Position not found")
        f = cands[0]
        ex = mir.Exec(fns, defs)
        # lengths of strings are arbitrary numbers here (the text of the merged literal is not modelled)
        ex.opaque_calls = c06.STUBS + [(r"String::len$", "string_len"), (r"<impl str>::len$", "str_len"), (r"core::str::<impl str>::chars", "chars"),
                                       (r"Iterator>::count$|::count::<", "count")]
        ex.opaque_types = {"PStr", "ModuleReference", "Heap", "ErrorSet", "WrappedLogosLexer", "String", "str"}

        def locfields(adt, st):
            adt = ex.force(adt, st)
            terms = [ex.force(ex.field_get(adt, 0, 0, "ModuleReference", st), st).t]
            for fi in (1, 2):
                pos = ex.force(ex.field_get(adt, 0, fi, "Position", st), st)
                for k in (0, 1):
                    terms.append(ex.force(ex.field_get(pos, 0, k, "u32", st), st).t)
            return terms

        ex.event_snapshot = {"loc_union": lambda e, args, st: [locfields(e.read_path(a, [("deref",)], st), st) for a in args]}
        args = [Lazy(t, n) for (p_, t), n in zip(f.params, ["self", "tok", "heap", "errs"])]
        try:
            paths = ex.run_fn(f, args, [])
        except mir.Untranslatable as e:
            raise Inconclusive("process_raw_token can no longer be translated with a transparent Location: %s" % e)
        out["paths"] = len(paths)
        OPERATOR = defs.variant_index("TokenContent", "Operator")

        def lt(a0, a1, b0, b1):     # derived Ord of Position(line, column)
            return z3.Or(z3.ULT(a0, b0), z3.And(a0 == b0, z3.ULT(a1, b1)))

        def le(a0, a1, b0, b1):
            return z3.Not(lt(b0, b1, a0, a1))
        for p in paths:
            if p.outcome[0] != "return" or "alloc_string" not in [e[0] for e in p.events]:
                continue
            out["merging_paths"] += 1
            st = p.state
            selfref = st["frames"][st["fid"]].get("_1")
            tp = ex.read_path(selfref, [("deref",)], st)
            pend_after = ex.field_get(tp, 0, 1, "Option<Token>", st)
            if not (isinstance(pend_after, Adt) and pend_after.discr == 1):
                raise Inconclusive("merging path does not leave a pending token")
            merged = locfields(pend_after.variants[1].get(0).variants[0][0], st)
            # the two input tokens, by the names of the lazily initialised inputs
            pend = Lazy("Location", "self.*.v0.f1.v1.f0.v0.f0")
            minus = locfields(ex.materialize(pend, st), st)
            lit = locfields(ex.materialize(Lazy("Location", "tok.v0.f0"), st), st)
            contract = []
            for e in p.events:
                if e[0] == "loc_union":
                    a, b = e[2]
                    r = locfields(ex.materialize(Lazy("Location", "loc_union!%d" % e[3]), st), st)
                    contract += [r[0] == a[0],
                                 r[1] == z3.If(lt(a[1], a[2], b[1], b[2]), a[1], b[1]), r[2] == z3.If(lt(a[1], a[2], b[1], b[2]), a[2], b[2]),
                                 r[3] == z3.If(lt(b[3], b[4], a[3], a[4]), a[3], b[3]), r[4] == z3.If(lt(b[3], b[4], a[3], a[4]), a[4], b[4])]
            pre = [minus[0] == lit[0], le(minus[1], minus[2], minus[3], minus[4]), le(minus[3], minus[4], lit[1], lit[2]), le(lit[1], lit[2], lit[3], lit[4])]
            wrong = z3.Or(merged[0] != minus[0], merged[1] != minus[1], merged[2] != minus[2], merged[3] != lit[3], merged[4] != lit[4])
            out["obligations"] += 1
            r, model, info = smt.check(list(p.pc) + contract + pre + [wrong], timeout_s=60, cross=True)
            if r == "unsat":
                out["discharged"] += 1
                continue
            if r != "sat":
                res.inconc("merged token location: solver inconclusive (%s)" % info)
                continue
            g = lambda t: model.eval(t, model_completion=True).as_long()
            wit = {"minus": [g(x) for x in minus[1:]], "digits": [g(x) for x in lit[1:]], "merged_by_the_encoding": [g(x) for x in merged[1:]]}
            # replay: an expression with the minus sign and the digits at the witness's distance (same line when the
            # witness has them on one line, otherwise on two lines)
            gap_lines = min(3, max(0, wit["digits"][0] - wit["minus"][2]))
            gap_cols = min(6, max(0, wit["digits"][1] - wit["minus"][3])) if gap_lines == 0 else min(6, wit["digits"][1])
            text = "-" + "\n" * gap_lines + " " * gap_cols + "2147483648"
            path = os.path.join(sc.root, "c14expr.txt")
            open(path, "w").write(text)
            pr = drv.call(["exprloc", path], check=False)
            try:
                got = json.loads(pr.stdout.strip().split("\n")[-1])["loc"]
            except Exception:
                res.inconc("merged token location: witness could not be replayed: %s" % (pr.stdout + pr.stderr)[-200:])
                continue
            out["replays"] += 1
            want = [0, 0, gap_lines, gap_cols + 10 + (1 if gap_lines == 0 else 0)]
            if got != want:
                res.violation("the token that merges `-` and 2147483648 has the location %s for the text %r; the minus sign starts at 0:0 and the digits end at %d:%d"
                              % (got, text, want[2], want[3]), {"property": "C14", "text": text, "location": got, "expected": want, "solver_witness": wit})
            else:
                res.inconc("merged token location: the solver's witness %s does not reproduce on the real lexer (location %s for %r)" % (wit, got, text))
        if out["merging_paths"] == 0:
            res.inconc("merged token location: no merging path found in process_raw_token")
    return out
