// Child module of samlang-ast/src/lir.rs (scratch copy only): prints the TypeScript the real
// printer emits for `let r = a <op> b`.
#![allow(dead_code, unused_imports)]
use super::*;

pub fn binary_ts(op: BinaryOperator) -> String {
  let heap = &mut Heap::new();
  let table = SymbolTable::new();
  let st = Statement::Binary {
    name: PStr::LOWER_R,
    operator: op,
    e1: Expression::Variable(PStr::LOWER_A, INT_32_TYPE),
    e2: Expression::Variable(PStr::LOWER_B, INT_32_TYPE),
  };
  let mut s = String::new();
  st.pretty_print_internal(heap, &table, &HashMap::new(), 0, &None, &mut s);
  s
}

pub fn not_ts() -> String {
  let heap = &mut Heap::new();
  let table = SymbolTable::new();
  let st = Statement::Not { name: PStr::LOWER_R, operand: Expression::Variable(PStr::LOWER_A, INT_32_TYPE) };
  let mut s = String::new();
  st.pretty_print_internal(heap, &table, &HashMap::new(), 0, &None, &mut s);
  s
}
