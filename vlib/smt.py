"""Dual-solver discharge of z3py assertion sets.

check(assertions) -> ("unsat"|"sat"|"unknown", model_or_None, info)
  * z3 (in-process, the z3-solver wheel) decides; cvc5 (binary) is run on the SMT-LIB2 text of the
    same query when cross=True.  Disagreement, any "(error" line, or unknown => "unknown".
"""
import subprocess
import time
import z3

CVC5 = "/usr/bin/cvc5"
Z3_OLD = "/usr/bin/z3"

STATS = {"queries": 0, "unsat": 0, "sat": 0, "unknown": 0, "z3_s": 0.0, "cvc5_s": 0.0, "cvc5_queries": 0,
         "z3old_queries": 0, "z3old_s": 0.0}


def _run_text_solver(cmd, text, timeout):
    t0 = time.time()
    try:
        p = subprocess.run(cmd, input=text, capture_output=True, text=True, timeout=timeout)
    except subprocess.TimeoutExpired:
        return "unknown", time.time() - t0, "timeout"
    out = (p.stdout or "") + (p.stderr or "")
    dt = time.time() - t0
    if "(error" in out:
        return "unknown", dt, out[:300]
    first = (p.stdout or "").strip().split("\n")[0].strip() if (p.stdout or "").strip() else ""
    if first in ("sat", "unsat"):
        return first, dt, ""
    return "unknown", dt, out[:300]


def _fix_text(text):
    # z3 prints its internal "divisor known non-zero" operators; they coincide with the SMT-LIB ones
    for a, b in (("bvsdiv_i", "bvsdiv"), ("bvsrem_i", "bvsrem"), ("bvudiv_i", "bvudiv"), ("bvurem_i", "bvurem"), ("bvsmod_i", "bvsmod")):
        text = text.replace(a, b)
    return text


def check_int_route(assertions, timeout_s, want_model=True):
    """Exact integer re-encoding (vlib/bv2int.py).  Decided by z3 (wheel) and confirmed by z3 4.8.12 or cvc5."""
    from . import bv2int
    try:
        ints, tr = bv2int.translate(assertions)
    except bv2int.Unsupported as e:
        return "unknown", None, {"int_route": "unsupported: %s" % e}
    s = z3.Solver()
    s.set("timeout", int(timeout_s * 1000))
    s.add(*ints)
    t0 = time.time()
    r = s.check()
    STATS["z3_s"] += time.time() - t0
    res = "sat" if r == z3.sat else ("unsat" if r == z3.unsat else "unknown")
    info = {"int_route_z3": res}
    if res == "unknown":
        return res, None, info
    text = "(set-logic ALL)\n" + s.to_smt2()
    r2, dt, _ = _run_text_solver([Z3_OLD, "-in", "-T:%d" % int(timeout_s)], text, timeout_s + 5)
    STATS["z3old_queries"] += 1
    STATS["z3old_s"] += dt
    info["int_route_z3_4.8"] = r2
    if r2 != res:
        r3, dt3, _ = _run_text_solver([CVC5, "--lang", "smt2", "--tlimit=%d" % int(timeout_s * 1000)], text, timeout_s + 5)
        STATS["cvc5_queries"] += 1
        STATS["cvc5_s"] += dt3
        info["int_route_cvc5"] = r3
        if r3 != res:
            return "unknown", None, info
    model = None
    if res == "sat" and want_model:
        m = s.model()
        fix = []
        for name, iv in tr.vars.items():
            val = m.eval(iv, model_completion=True).as_long()
            # find the BV variable of that name among the assertions
            fix.append((name, val))
        s2 = z3.Solver()
        s2.set("timeout", int(timeout_s * 1000))
        s2.add(*assertions)
        consts = {}
        for a in assertions:
            _collect_consts(a, consts)
        for name, val in fix:
            if name in consts:
                s2.add(consts[name] == z3.BitVecVal(val, consts[name].size()))
        if s2.check() == z3.sat:
            model = s2.model()
        else:
            return "unknown", None, dict(info, note="integer model does not satisfy the bit-vector query")
    return res, model, info


def _collect_consts(t, out, seen=None):
    seen = seen if seen is not None else set()
    if t.get_id() in seen:
        return
    seen.add(t.get_id())
    if z3.is_const(t) and t.decl().kind() == z3.Z3_OP_UNINTERPRETED and z3.is_bv(t):
        out[str(t)] = t
    for c in t.children():
        _collect_consts(c, out, seen)


def check(assertions, timeout_s=60, cross=True, want_model=True, int_route=False):
    if int_route:
        # queries that need multiplication/division reasoning: the exact integer re-encoding is tried first
        # (it finds counterexamples and proofs in well under a second where bit-blasting does not finish);
        # bit-blasting is the fallback
        r2, model2, info2 = check_int_route(assertions, timeout_s, want_model)
        if r2 != "unknown":
            STATS["queries"] += 1
            STATS[r2] += 1
            return r2, model2, info2
        r, model, info = check(assertions, timeout_s=timeout_s, cross=cross, want_model=want_model)
        info.update(info2)
        return r, model, info
    STATS["queries"] += 1
    s = z3.Solver()
    s.set("timeout", int(timeout_s * 1000))
    for a in assertions:
        s.add(a)
    t0 = time.time()
    r = s.check()
    STATS["z3_s"] += time.time() - t0
    res = "sat" if r == z3.sat else ("unsat" if r == z3.unsat else "unknown")
    info = {"z3": res}
    model = s.model() if (res == "sat" and want_model) else None
    if cross:
        text = _fix_text("(set-logic ALL)\n" + s.to_smt2())
        r2, dt, err = _run_text_solver([CVC5, "--lang", "smt2", "--tlimit=%d" % int(timeout_s * 1000)], text, timeout_s + 5)
        STATS["cvc5_s"] += dt
        STATS["cvc5_queries"] += 1
        info["cvc5"] = r2
        if err:
            info["cvc5_err"] = err
        if res == "unknown" and r2 in ("sat", "unsat"):
            # z3 gave up, cvc5 decided: ask the old z3 binary as the second opinion
            r3, dt3, _ = _run_text_solver([Z3_OLD, "-in", "-T:%d" % int(timeout_s)], text, timeout_s + 5)
            STATS["z3old_queries"] += 1
            STATS["z3old_s"] += dt3
            info["z3_4.8"] = r3
            if r3 == r2:
                res = r2
                if res == "sat" and want_model:
                    # get a model from z3py with a longer timeout; otherwise report unknown
                    s.set("timeout", int(timeout_s * 4000))
                    if s.check() == z3.sat:
                        model = s.model()
                    else:
                        res = "unknown"
        elif r2 == "unknown":
            # cvc5 gave up: second opinion from the independent old z3 binary
            r3, dt3, _ = _run_text_solver([Z3_OLD, "-in", "-T:%d" % int(timeout_s)], text, timeout_s + 5)
            STATS["z3old_queries"] += 1
            STATS["z3old_s"] += dt3
            info["z3_4.8"] = r3
            if r3 != res:
                res = "unknown"
        elif r2 != res:
            info["disagreement"] = True
            res = "unknown"
    STATS[res] += 1
    return res, model, info


def model_int(model, term, signed=True):
    v = model.eval(term, model_completion=True)
    if z3.is_bv_value(v):
        return v.as_signed_long() if signed else v.as_long()
    if z3.is_true(v):
        return 1
    if z3.is_false(v):
        return 0
    return str(v)
