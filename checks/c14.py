"""C05 / C14 (E-K): Kani harnesses over the hand-written lexer scanners and the Location algebra."""
import concurrent.futures
import os
import time

from vlib import kani
from vlib.common import Inconclusive, Scratch
from checks.c17 import judge

LOC = ["union_is_least_upper_bound", "contains_is_a_partial_order"]
SCAN = ["scan_skip_whitespace", "scan_string_literal", "scan_string_literal_short", "scan_string_literal_multibyte", "scan_string_literal_two_byte_fixed", "scan_line_comment", "scan_block_comment", "scan_escape_validation_total"]


def prepare(sc):
    sc.append_child_module("crates/samlang-parser/src/lexer.rs", "/verif/harness/parser/lexer_h.rs", "verif_harness")
    sc.append_child_module("crates/samlang-ast/src/loc.rs", "/verif/harness/ast/loc_h.rs", "verif_harness")


def run(res, tier, a, prop):
    per_cap = 900 if tier == "quick" else 3000
    t0 = time.time()
    results = {}
    want_loc = prop == "C14"
    with Scratch(prop) as sc:
        prepare(sc)
        groups = [("samlang-parser", [h]) for h in SCAN]
        if want_loc:
            groups.append(("samlang-ast", LOC))
        with concurrent.futures.ThreadPoolExecutor(max_workers=len(groups)) as ex:
            futs = {ex.submit(kani.run_harnesses, sc, crate, g, per_cap * len(g), 12, ("-Z", "stubbing"), "kani%d" % i): (crate, g) for i, (crate, g) in enumerate(groups)}
            for f in concurrent.futures.as_completed(futs):
                try:
                    r, out = f.result()
                except Inconclusive as e:
                    res.inconc(str(e)[:2000])
                    continue
                results.update(r)
    harnesses = SCAN + (LOC if want_loc else [])
    judge(res, results, harnesses, "samlang-parser / samlang-ast")
    crash_rows = []
    if prop == "C05":
        crash_rows = crash_corpus(res)
    res.coverage.update({
        "states": sum(1 for h in harnesses if results.get(h, {}).get("status") == "SUCCESSFUL") or 1,
        "transitions": len(harnesses),
        "traces_validated_against_impl": 0,
        "harnesses": {h: {k: v for k, v in results.get(h, {}).items() if k in ("status", "time", "covers_summary", "failed_checks")} for h in harnesses},
        "bounds": {"input": "every ASCII byte string of length <= 6 (5 for the comment scanners / escape validation), symbolic length and bytes; symbolic start position < 1000 for skip_whitespace",
                   "unwind": "8-9 with unwinding assertions"},
        "explanation": "states = harnesses proved; each harness runs one hand-written scanner of the real lexer on an arbitrary bounded input",
        "kani_wall_s": round(time.time() - t0, 1),
    })
    if crash_rows:
        res.coverage["crash_regression_corpus"] = crash_rows
        res.assumptions.append("crash_regression_corpus is a gate, not a solver verdict: each input of /verif/corpus_crash (inputs that once crashed the "
                               "front end, or were reported to) is run through the real parser + checker and must end with a result or diagnostics")
    res.assumptions += [
        "Kani 0.68 / CBMC 6.11 translation of the compiled crate",
        "environment stub: String::from_utf8_lossy returns an empty string in the two comment-scanner harnesses (the comment text is not checked)",
        "ASCII input only (bytes < 128), except scan_string_literal_multibyte: string literals of up to three characters each either one ASCII byte or U+00E9",
        "the logos-generated DFA, keyword/operator recognition, the parser and every consumer of locations are outside the claim",
    ]
    for h in harnesses:
        res.sample({"harness": h, **{k: v for k, v in results.get(h, {}).items() if k in ("status", "time", "covers_summary")}})


def crash_corpus(res):
    """C05 gate (not a solver verdict): inputs that once made the front end panic must now produce a result or
    diagnostics.  The parser and checker proper are outside what the Kani harnesses can encode."""
    import glob
    import subprocess
    from vlib import ws
    from vlib.common import VERIF
    rows = []
    with Scratch(os.environ.get("VERIF_SLOT", "ws")) as sc:
        ws.inject(sc)
        drv = ws.build_driver(sc)
        for f in sorted(glob.glob(os.path.join(VERIF, "corpus_crash", "*.sam"))):
            try:
                p = subprocess.run([drv, "typecheck", "Main=" + f], capture_output=True, text=True, timeout=60)
                st = "ok" if p.returncode == 0 and p.stdout.strip().startswith("{") else "crash (exit %d)" % p.returncode
            except subprocess.TimeoutExpired:
                st = "hang (> 60 s)"
            rows.append({"input": os.path.basename(f), "status": st})
            if st != "ok":
                res.violation("the front end does not survive the input %s: %s" % (os.path.basename(f), st),
                              {"property": "C05", "input_file": f, "input": open(f, errors="replace").read()[:400], "status": st})
    return rows
