// Child module of samlang-parser/src/lexer.rs (scratch copy only): Kani harnesses for the hand-written
// scanners (C05: no panic, progress; C14: position bookkeeping).  Inputs: every ASCII byte string of
// length <= N (symbolic length and bytes).  Each harness has a kani::cover! reachability witness.
#![allow(dead_code, unused_imports, unused_variables)]
use super::*;

#[cfg(kani)]
fn any_ascii<const N: usize>(buf: &mut [u8; N]) -> usize {
  let len: usize = kani::any();
  kani::assume(len <= N);
  let mut i = 0;
  while i < N {
    let b: u8 = kani::any();
    kani::assume(b < 128);
    buf[i] = b;
    i += 1;
  }
  len
}

/// Environment stub (Kani -Z stubbing): the text of a comment is not part of what these harnesses check, and
/// lossy decoding + trimming + joining of a symbolic buffer dominates the cost otherwise.  Slicing of the
/// buffer (where the bounds can go wrong) happens before this call and is still executed for real.
#[cfg(kani)]
fn stub_from_utf8_lossy(_v: &[u8]) -> std::borrow::Cow<'_, str> {
  std::borrow::Cow::Borrowed("")
}

/// line / column after consuming `bytes` from `start` (independent recomputation: lines = number of '\n',
/// column = bytes since the last '\n')
#[cfg(kani)]
fn advance(start: Position, bytes: &[u8]) -> Position {
  let mut p = start;
  let mut i = 0;
  while i < bytes.len() {
    if bytes[i] == b'\n' {
      p.0 += 1;
      p.1 = 0;
    } else {
      p.1 += 1;
    }
    i += 1;
  }
  p
}

#[cfg(kani)]
#[kani::proof]
#[kani::unwind(8)]
fn scan_skip_whitespace() {
  const N: usize = 6;
  let mut buf = [0u8; N];
  let len = any_ascii(&mut buf);
  let src = unsafe { std::str::from_utf8_unchecked(&buf[..len]) };
  let mut lx = WrappedLogosLexer::new(src, ModuleReference::DUMMY);
  let l0: u32 = kani::any();
  let c0: u32 = kani::any();
  kani::assume(l0 < 1000 && c0 < 1000);
  lx.position = Position(l0, c0);
  lx.skip_whitespace();
  let consumed = len - lx.lexer.remainder().len();
  // everything consumed is whitespace, the next byte (if any) is not
  let mut i = 0;
  while i < consumed {
    assert!(buf[i].is_ascii_whitespace());
    i += 1;
  }
  assert!(consumed == len || !buf[consumed].is_ascii_whitespace());
  assert!(lx.position == advance(Position(l0, c0), &buf[..consumed]));
  kani::cover!(consumed == 3 && lx.position.0 == l0 + 2);
}

#[cfg(kani)]
fn whitespace_fixed(text: &'static [u8], consumed_expected: usize) {
  let src = unsafe { std::str::from_utf8_unchecked(text) };
  let mut lx = WrappedLogosLexer::new(src, ModuleReference::DUMMY);
  lx.position = Position(3, 7);
  lx.skip_whitespace();
  let consumed = text.len() - lx.lexer.remainder().len();
  assert!(consumed == consumed_expected);
  assert!(lx.position == advance(Position(3, 7), &text[..consumed]));
}

// Fixed texts (concrete bytes: seconds for CBMC whatever routines a rewritten scanner uses): line breaks that are
// not adjacent - a line holding only blanks or tabs between them -, trailing blanks after the last break, no break.
#[cfg(kani)]
#[kani::proof]
#[kani::unwind(40)]
fn scan_skip_whitespace_fixed_shapes() {
  whitespace_fixed(b"\n  \n  x", 6);
  whitespace_fixed(b"  \n\t\n\n y", 7);
  whitespace_fixed(b"\n \n \n", 5);
  whitespace_fixed(b"   z", 3);
  whitespace_fixed(b"\n\nq", 2);
  whitespace_fixed(b" \n   \n      \n  w", 15);
  kani::cover!(true);
}

#[cfg(kani)]
#[kani::proof]
#[kani::unwind(9)]
fn scan_string_literal() {
  const N: usize = 6;
  let mut buf = [0u8; N];
  let len = any_ascii(&mut buf);
  let src = unsafe { std::str::from_utf8_unchecked(&buf[..len]) };
  let mut lx = WrappedLogosLexer::new(src, ModuleReference::DUMMY);
  let before = lx.position;
  match lx.lex_str_lit_opt() {
    Some((loc, s)) => {
      let consumed = len - lx.lexer.remainder().len();
      assert!(consumed >= 2); // progress: at least the two quotes
      assert!(s.len() == consumed);
      assert!(buf[0] == b'"' && buf[consumed - 1] == b'"');
      assert!(loc.start == before && loc.end == lx.position);
      assert!(lx.position == advance(before, &buf[..consumed])); // a literal never spans lines
      assert!(lx.position.0 == before.0);
      kani::cover!(consumed == 5);
    }
    None => {
      assert!(lx.position == before);
      assert!(lx.lexer.remainder().len() == len);
    }
  }
}

#[cfg(kani)]
#[kani::proof]
#[kani::unwind(6)]
fn scan_string_literal_short() {
  // every ASCII input of at most 3 bytes: cheap enough to finish whatever loop shape the scanner has (the 6-byte
  // harness above ran into its time limit on a scanner rewritten with a forward scan); covers `"`, `"\` and `"\"`
  const N: usize = 3;
  let mut buf = [0u8; N];
  let len = any_ascii(&mut buf);
  let src = unsafe { std::str::from_utf8_unchecked(&buf[..len]) };
  let mut lx = WrappedLogosLexer::new(src, ModuleReference::DUMMY);
  let before = lx.position;
  match lx.lex_str_lit_opt() {
    Some((loc, s)) => {
      let consumed = len - lx.lexer.remainder().len();
      assert!(consumed >= 2 && s.len() == consumed);
      assert!(buf[0] == b'"' && buf[consumed - 1] == b'"');
      assert!(loc.start == before && loc.end == lx.position);
      assert!(lx.position == advance(before, &buf[..consumed]));
      kani::cover!(consumed == 3);
    }
    None => {
      assert!(lx.position == before);
      assert!(lx.lexer.remainder().len() == len);
    }
  }
}

#[cfg(kani)]
#[kani::proof]
#[kani::unwind(12)]
#[kani::stub(core::str::count::count_chars, stub_count_chars)]
fn scan_string_literal_multibyte() {
  // valid UTF-8 by construction: `"`, then up to three characters each of which is either one symbolic ASCII
  // byte or the two-byte character U+00E9, then a symbolic tail byte.  Columns are byte offsets in this code
  // base (the error printer and every other scanner count bytes), so the literal must advance by its byte length.
  let mut buf = [0u8; 9];
  buf[0] = b'"';
  let mut len = 1;
  let mut k = 0;
  while k < 3 {
    let two: bool = kani::any();
    if two {
      buf[len] = 0xC3;
      buf[len + 1] = 0xA9;
      len += 2;
    } else {
      let b: u8 = kani::any();
      kani::assume(b < 128);
      buf[len] = b;
      len += 1;
    }
    k += 1;
  }
  let tail: u8 = kani::any();
  kani::assume(tail < 128);
  buf[len] = tail;
  len += 1;
  let src = unsafe { std::str::from_utf8_unchecked(&buf[..len]) };
  let mut lx = WrappedLogosLexer::new(src, ModuleReference::DUMMY);
  let before = lx.position;
  match lx.lex_str_lit_opt() {
    Some((loc, s)) => {
      let consumed = len - lx.lexer.remainder().len();
      assert!(s.len() == consumed);
      assert!(loc.start == before && loc.end == lx.position);
      assert!(lx.position == advance(before, &buf[..consumed]));
      kani::cover!(consumed == 6);
      std::mem::forget(s);
    }
    None => {
      assert!(lx.position == before);
      assert!(lx.lexer.remainder().len() == len);
    }
  }
}

/// `str::chars().count()` goes through a chunked (SIMD-style) routine whose nested loops CBMC unwinds for
/// minutes although it is never taken for short strings; the stub is the documented meaning: the number of
/// bytes that are not UTF-8 continuation bytes.  (Only reached if the scanner starts counting characters.)
#[cfg(kani)]
fn stub_count_chars(s: &str) -> usize {
  let b = s.as_bytes();
  let mut n = 0;
  let mut i = 0;
  while i < b.len() {
    if (b[i] as i8) >= -0x40 {
      n += 1;
    }
    i += 1;
  }
  n
}

#[cfg(kani)]
#[kani::proof]
#[kani::unwind(12)]
#[kani::stub(core::str::count::count_chars, stub_count_chars)]
fn scan_string_literal_two_byte_fixed() {
  // the cheap companion of scan_string_literal_multibyte: the literal "<a>\u{e9}<b>" with two symbolic ASCII
  // bytes around one fixed two-byte character; everything else is concrete, so the solver only has to decide
  // the column arithmetic (and still decides it when the implementation counts characters in a loop).
  let a: u8 = kani::any();
  let b: u8 = kani::any();
  kani::assume(a < 128 && a != b'"' && a != b'\\' && a != b'\n');
  kani::assume(b < 128 && b != b'"' && b != b'\\' && b != b'\n');
  let buf = [b'"', a, 0xC3, 0xA9, b, b'"', b';'];
  let src = unsafe { std::str::from_utf8_unchecked(&buf[..]) };
  let mut lx = WrappedLogosLexer::new(src, ModuleReference::DUMMY);
  let before = lx.position;
  match lx.lex_str_lit_opt() {
    Some((loc, s)) => {
      let consumed = 7 - lx.lexer.remainder().len();
      assert!(consumed == 6);
      assert!(loc.start == before && loc.end == lx.position);
      assert!(lx.position == advance(before, &buf[..consumed]));
      kani::cover!(true);
      std::mem::forget(s);
    }
    None => {
      assert!(false);
    }
  }
}

#[cfg(kani)]
#[kani::proof]
#[kani::unwind(9)]
#[kani::stub(std::string::String::from_utf8_lossy, stub_from_utf8_lossy)]
fn scan_line_comment() {
  const N: usize = 5;
  let mut buf = [0u8; N];
  let len = any_ascii(&mut buf);
  let src = unsafe { std::str::from_utf8_unchecked(&buf[..len]) };
  let mut lx = WrappedLogosLexer::new(src, ModuleReference::DUMMY);
  let before = lx.position;
  match lx.lex_line_comment_opt() {
    Some((loc, s)) => {
      let consumed = len - lx.lexer.remainder().len();
      assert!(consumed >= 2);
      assert!(loc.start == before && loc.end == lx.position);
      assert!(lx.position == advance(before, &buf[..consumed]));
      assert!(consumed == len || buf[consumed] == b'\n'); // stops exactly at the line break
      kani::cover!(consumed == 4);
      std::mem::forget(s);
    }
    None => {
      assert!(lx.position == before);
      assert!(lx.lexer.remainder().len() == len);
    }
  }
}

#[cfg(kani)]
#[kani::proof]
#[kani::unwind(9)]
#[kani::stub(std::string::String::from_utf8_lossy, stub_from_utf8_lossy)]
fn scan_block_comment() {
  const N: usize = 6;
  let mut buf = [0u8; N];
  let len = any_ascii(&mut buf);
  let src = unsafe { std::str::from_utf8_unchecked(&buf[..len]) };
  let mut lx = WrappedLogosLexer::new(src, ModuleReference::DUMMY);
  let before = lx.position;
  match lx.lex_block_comment_opt() {
    Some((is_doc, loc, s)) => {
      let consumed = len - lx.lexer.remainder().len();
      assert!(consumed >= 4); // `/*` and `*/`
      assert!(loc.start == before && loc.end == lx.position);
      assert!(lx.position == advance(before, &buf[..consumed]));
      assert!(buf[consumed - 2] == b'*' && buf[consumed - 1] == b'/');
      kani::cover!(consumed == 4);
      kani::cover!(consumed == 6 && lx.position.0 == 1);
      std::mem::forget(s);
    }
    None => {
      assert!(lx.position == before); // the saved position is restored
      assert!(lx.lexer.remainder().len() == len);
    }
  }
}

#[cfg(kani)]
fn block_comment_fixed(text: &'static [u8], consumed_expected: usize) {
  let src = unsafe { std::str::from_utf8_unchecked(text) };
  let mut lx = WrappedLogosLexer::new(src, ModuleReference::DUMMY);
  let before = lx.position;
  match lx.lex_block_comment_opt() {
    Some((_, loc, s)) => {
      let consumed = text.len() - lx.lexer.remainder().len();
      assert!(consumed == consumed_expected);
      assert!(loc.start == before && loc.end == lx.position);
      assert!(lx.position == advance(before, &text[..consumed]));
      std::mem::forget(s);
    }
    None => assert!(false),
  }
}

// Fixed texts (the bytes are concrete, so this costs CBMC seconds whatever library routines a rewritten scanner
// uses - `str::find`, `lines()` - where the symbolic harness above would time out): the terminator on a line of
// its own, right after a line break, after an indented line, and a one-line comment followed by more text.
#[cfg(kani)]
#[kani::proof]
#[kani::unwind(40)]
#[kani::stub(std::string::String::from_utf8_lossy, stub_from_utf8_lossy)]
fn scan_block_comment_fixed_shapes() {
  block_comment_fixed(b"/*\n*/x", 5);
  block_comment_fixed(b"/**\n*/ c", 6);
  block_comment_fixed(b"/* a\nbc\n*/\nz", 10);
  block_comment_fixed(b"/* a\n  */z", 9);
  block_comment_fixed(b"/* ab */ z", 8);
  block_comment_fixed(b"/*\n\n*/", 6);
  kani::cover!(true);
}

#[cfg(kani)]
#[kani::proof]
#[kani::unwind(8)]
fn scan_escape_validation_total() {
  // string_has_valid_escape never panics and accepts exactly the strings whose backslashes each introduce one
  // of the listed escapes
  const N: usize = 5;
  let mut buf = [0u8; N];
  let len = any_ascii(&mut buf);
  let src = unsafe { std::str::from_utf8_unchecked(&buf[..len]) };
  let ok = string_has_valid_escape(src);
  let mut expect = true;
  let mut esc = false;
  let mut i = 0;
  while i < len {
    let c = buf[i];
    if esc {
      if !(c == b't' || c == b'v' || c == b'0' || c == b'b' || c == b'f' || c == b'n' || c == b'r' || c == b'"' || c == b'\\') {
        expect = false;
      }
      esc = false;
    } else if c == b'\\' {
      esc = true;
    }
    i += 1;
  }
  assert!(ok == expect);
  kani::cover!(len == 5 && ok);
  kani::cover!(len == 3 && !ok);
}
