// Child module of samlang-optimization/src/loop_algebraic_optimization.rs (scratch copy only).
#![allow(dead_code, unused_imports)]
use super::*;

pub fn guard_of_discr(d: u8) -> Option<GuardOperator> {
  [GuardOperator::LT, GuardOperator::LE, GuardOperator::GT, GuardOperator::GE]
    .into_iter()
    .find(|g| (*g as u8) == d)
}

pub fn iterations(i: i32, d: i32, op: u8, g: i32) -> Result<Option<i32>, String> {
  let op = guard_of_discr(op).ok_or("bad guard op")?;
  std::panic::catch_unwind(|| analyze_number_of_iterations_to_break_guard(i, d, op, g))
    .map_err(|_| "panic".to_string())
}
