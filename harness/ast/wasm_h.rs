// Child module of samlang-ast/src/wasm.rs (scratch copy only): prints the WAT the real
// printer emits for `a <op> b` so that the operator table is read from the code, not assumed.
#![allow(dead_code, unused_imports)]
use super::*;

pub fn ref_cmp_wat(op: hir::BinaryOperator) -> String {
  let heap = &mut Heap::new();
  let table = mir::SymbolTable::new();
  let i = InlineInstruction::Binary {
    v1: Box::new(InlineInstruction::LocalGet(PStr::LOWER_A)),
    op,
    v2: Box::new(InlineInstruction::LocalGet(PStr::LOWER_B)),
    is_ref_comparison: true,
  };
  let mut s = String::new();
  i.pretty_print(&mut s, heap, &table);
  s
}

pub fn binary_wat(op: hir::BinaryOperator) -> String {
  let heap = &mut Heap::new();
  let table = mir::SymbolTable::new();
  let i = InlineInstruction::Binary {
    v1: Box::new(InlineInstruction::LocalGet(PStr::LOWER_A)),
    op,
    v2: Box::new(InlineInstruction::LocalGet(PStr::LOWER_B)),
    is_ref_comparison: false,
  };
  let mut s = String::new();
  i.pretty_print(&mut s, heap, &table);
  s
}
