// Child module of samlang-optimization/src/loop_induction_analysis.rs (scratch copy only).
#![allow(dead_code, unused_imports)]
use super::*;
use samlang_ast::hir::BinaryOperator;

pub fn guard_invert(d: u8) -> Result<u8, String> {
  let g = [GuardOperator::LT, GuardOperator::LE, GuardOperator::GT, GuardOperator::GE]
    .into_iter()
    .find(|g| (*g as u8) == d)
    .ok_or("bad guard op")?;
  Ok(g.invert() as u8)
}

pub fn guard_operator_of(op: u8, invert: bool) -> Result<Option<u8>, String> {
  let op = [
    BinaryOperator::MUL, BinaryOperator::DIV, BinaryOperator::MOD, BinaryOperator::PLUS,
    BinaryOperator::MINUS, BinaryOperator::LAND, BinaryOperator::LOR, BinaryOperator::SHL,
    BinaryOperator::SHR, BinaryOperator::XOR, BinaryOperator::LT, BinaryOperator::LE,
    BinaryOperator::GT, BinaryOperator::GE, BinaryOperator::EQ, BinaryOperator::NE,
  ]
  .into_iter()
  .find(|o| (*o as u8) == op)
  .ok_or("bad op")?;
  Ok(get_guard_operator(op, invert).map(|g| g as u8))
}

fn plie(is_int: bool, v: i32) -> PotentialLoopInvariantExpression {
  if is_int {
    PotentialLoopInvariantExpression::Int(v)
  } else {
    // variable #v: distinct names for distinct v (single letters are inline PStrs)
    let names = [samlang_heap::PStr::LOWER_A, samlang_heap::PStr::LOWER_B, samlang_heap::PStr::LOWER_C, samlang_heap::PStr::LOWER_D];
    PotentialLoopInvariantExpression::Var(VariableName { name: names[(v as usize) % 4], type_: samlang_ast::mir::INT_32_TYPE })
  }
}

fn show(e: &PotentialLoopInvariantExpression) -> (bool, i32) {
  match e {
    PotentialLoopInvariantExpression::Int(i) => (true, *i),
    PotentialLoopInvariantExpression::Var(v) => {
      let names = [samlang_heap::PStr::LOWER_A, samlang_heap::PStr::LOWER_B, samlang_heap::PStr::LOWER_C, samlang_heap::PStr::LOWER_D];
      (false, names.iter().position(|n| n.eq(&v.name)).map(|p| p as i32).unwrap_or(-1))
    }
  }
}

/// which: 0 = addition, 1 = multiplication
pub fn merge_invariant(which: u8, a_int: bool, a: i32, b_int: bool, b: i32) -> Result<Option<(bool, i32)>, String> {
  std::panic::catch_unwind(|| {
    let x = plie(a_int, a);
    let y = plie(b_int, b);
    let r = if which == 0 {
      merge_invariant_addition_for_loop_optimization(&x, &y)
    } else {
      merge_invariant_multiplication_for_loop_optimization(&x, &y)
    };
    r.map(|e| show(&e))
  })
  .map_err(|_| "panic".to_string())
}

/// returns (mult, imm) of the merged derived induction variable
pub fn merge_const_op(m_int: bool, m: i32, i_int: bool, i: i32, is_plus: bool, e_int: bool, e: i32) -> Result<Option<((bool, i32), (bool, i32))>, String> {
  std::panic::catch_unwind(|| {
    let existing = DerivedInductionVariable { base_name: samlang_heap::PStr::LOWER_I, multiplier: plie(m_int, m), immediate: plie(i_int, i) };
    merge_constant_operation_into_derived_induction_variable(&existing, is_plus, &plie(e_int, e))
      .map(|d| (show(&d.multiplier), show(&d.immediate)))
  })
  .map_err(|_| "panic".to_string())
}
