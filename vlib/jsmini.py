"""E-JS: a symbolic interpreter for the small JavaScript subset the TypeScript prelude of the compiler is written in
(crates/samlang-ast/src/lir.rs, `ts_prolog`).  The prelude line is taken from the TypeScript the real compiler emitted,
parsed here, and executed on symbolic numbers and arrays of a concrete length; every symbolic branch forks a path
(re-execution with a decision prefix), infeasible forks are pruned by z3.

Subset: arrow functions with identifier parameters; blocks, `if`/`else`, `return`, `throw Error(..)`, `const`/`let`,
`for (let i = e; c; i++)`, assignment to a variable or an array element, expression statements; expressions with
`|| && ! === !== == != < <= > >= + -`, number / string literals, `undefined`, array literals, `x.length`, `x[i]`,
`x.pop()`, `x.push(e)`.  Anything else raises Unsupported (the caller answers INCONCLUSIVE, never a verdict).

Values: Num(32-bit bit-vector; the prelude only handles i32 / i31 payloads and lengths), Bool(z3 Bool), Arr(identity,
elements of a concrete length), UNDEF, Str(text)."""
import re

import z3


class Unsupported(Exception):
    pass


class Num:
    def __init__(self, t):
        self.t = t


class Bool:
    def __init__(self, b):
        self.b = b


class Arr:
    def __init__(self, name):
        self.name = name


class Str:
    def __init__(self, s):
        self.s = s


class _Undef:
    def __repr__(self):
        return "undefined"


UNDEF = _Undef()


def BV(n):
    return z3.BitVecVal(n, 32)


TOKEN = re.compile(r"\s*(===|!==|==|!=|<=|>=|\|\||&&|\+\+|=>|[A-Za-z_$][A-Za-z0-9_$]*|\d+|'[^']*'|\"[^\"]*\"|[-+!<>=;,.()\[\]{}:?*/%])")


def tokenize(text):
    out = []
    pos = 0
    text = text.strip()
    while pos < len(text):
        m = TOKEN.match(text, pos)
        if not m:
            raise Unsupported("cannot tokenize %r" % text[pos:pos + 20])
        out.append(m.group(1))
        pos = m.end()
    return out


class Parser:
    def __init__(self, toks):
        self.t = toks
        self.i = 0

    def peek(self, k=0):
        return self.t[self.i + k] if self.i + k < len(self.t) else None

    def eat(self, tok=None):
        cur = self.peek()
        if tok is not None and cur != tok:
            raise Unsupported("expected %r, found %r" % (tok, cur))
        self.i += 1
        return cur

    # ---- statements
    def block_or_stmt(self):
        if self.peek() == "{":
            self.eat("{")
            body = []
            while self.peek() != "}":
                body.append(self.stmt())
            self.eat("}")
            return ("block", body)
        return self.stmt()

    def stmt(self):
        p = self.peek()
        if p == "{":
            return self.block_or_stmt()
        if p == "if":
            self.eat()
            self.eat("(")
            c = self.expr()
            self.eat(")")
            a = self.block_or_stmt()
            b = None
            if self.peek() == "else":
                self.eat()
                b = self.block_or_stmt()
            return ("if", c, a, b)
        if p == "return":
            self.eat()
            e = None if self.peek() == ";" else self.expr()
            self.semi()
            return ("return", e)
        if p == "throw":
            self.eat()
            e = self.expr()
            self.semi()
            return ("throw", e)
        if p in ("const", "let"):
            self.eat()
            name = self.eat()
            if self.peek() == ":":
                raise Unsupported("typed local")
            self.eat("=")
            e = self.expr()
            self.semi()
            return ("decl", name, e)
        if p == "for":
            self.eat()
            self.eat("(")
            if self.eat() not in ("let", "const"):
                raise Unsupported("for without let")
            name = self.eat()
            self.eat("=")
            init = self.expr()
            self.eat(";")
            cond = self.expr()
            self.eat(";")
            step = self.expr()
            self.eat(")")
            body = self.block_or_stmt()
            return ("for", name, init, cond, step, body)
        e = self.expr()
        self.semi()
        return ("expr", e)

    def semi(self):
        if self.peek() == ";":
            self.eat()
        elif self.peek() not in ("}", None):
            raise Unsupported("expected ; found %r" % self.peek())

    # ---- expressions
    def expr(self):
        lhs = self.or_()
        if self.peek() == "=":
            self.eat()
            rhs = self.expr()
            if lhs[0] not in ("var", "index"):
                raise Unsupported("assignment target")
            return ("assign", lhs, rhs)
        if self.peek() == "?":
            raise Unsupported("conditional expression")
        return lhs

    def _bin(self, sub, ops):
        e = sub()
        while self.peek() in ops:
            op = self.eat()
            e = ("bin", op, e, sub())
        return e

    def or_(self):
        return self._bin(self.and_, ("||",))

    def and_(self):
        return self._bin(self.eq_, ("&&",))

    def eq_(self):
        return self._bin(self.rel_, ("===", "!==", "==", "!="))

    def rel_(self):
        return self._bin(self.add_, ("<", "<=", ">", ">="))

    def add_(self):
        return self._bin(self.unary, ("+", "-"))

    def unary(self):
        if self.peek() == "!":
            self.eat()
            return ("not", self.unary())
        if self.peek() == "-":
            self.eat()
            return ("neg", self.unary())
        return self.postfix()

    def postfix(self):
        e = self.primary()
        while True:
            p = self.peek()
            if p == ".":
                self.eat()
                name = self.eat()
                if self.peek() == "(":
                    self.eat("(")
                    args = []
                    while self.peek() != ")":
                        args.append(self.expr())
                        if self.peek() == ",":
                            self.eat()
                    self.eat(")")
                    e = ("mcall", e, name, args)
                else:
                    e = ("member", e, name)
            elif p == "[":
                self.eat()
                i = self.expr()
                self.eat("]")
                e = ("index", e, i)
            elif p == "++":
                self.eat()
                e = ("postinc", e)
            elif p == "(":
                self.eat()
                args = []
                while self.peek() != ")":
                    args.append(self.expr())
                    if self.peek() == ",":
                        self.eat()
                self.eat(")")
                e = ("call", e, args)
            else:
                return e

    def primary(self):
        p = self.eat()
        if p is None:
            raise Unsupported("unexpected end")
        if p == "(":
            e = self.expr()
            self.eat(")")
            return e
        if p == "[":
            items = []
            while self.peek() != "]":
                items.append(self.expr())
                if self.peek() == ",":
                    self.eat()
            self.eat("]")
            return ("array", items)
        if p.isdigit():
            return ("num", int(p))
        if p[0] in "'\"":
            return ("str", p[1:-1])
        if p == "undefined":
            return ("undef",)
        if re.match(r"[A-Za-z_$]", p):
            return ("var", p)
        raise Unsupported("unexpected token %r" % p)


def parse_arrow(line):
    """`const NAME = (p: T, q: U): R => BODY;` -> (name, [params], body-ast, body-text).  Only identifier parameters."""
    m = re.match(r"^const (\S+) = \((.*?)\): [^=]*=> (.*);$", line.strip())
    if not m:
        raise Unsupported("not an arrow function constant: %r" % line[:80])
    name, params_text, body_text = m.group(1), m.group(2), m.group(3).strip()
    params = []
    for part in [x for x in params_text.split(",") if x.strip()]:
        pm = re.match(r"^\s*([A-Za-z_$][A-Za-z0-9_$]*)\s*:", part)
        if not pm:
            raise Unsupported("parameter pattern %r" % part)
        params.append(pm.group(1))
    ps = Parser(tokenize(body_text))
    if body_text.startswith("{"):
        body = ps.block_or_stmt()
    else:
        body = ("return", ps.expr())
    if ps.peek() is not None:
        raise Unsupported("trailing tokens after the body: %r" % ps.peek())
    return name, params, body, body_text


class _Return(Exception):
    def __init__(self, v):
        self.v = v


class _Throw(Exception):
    def __init__(self, v):
        self.v = v


class _Fork(Exception):
    pass


class Path:
    def __init__(self, pc, outcome, value, arrays, why=None):
        self.pc = pc
        self.outcome = outcome      # "return" | "throw" | "oob-store"
        self.value = value
        self.arrays = arrays        # array name -> list of element values at the end
        self.why = why


class Exec:
    """run(params -> values, arrays, pre) -> [Path].  `arrays` maps an Arr's name to its initial list of elements."""

    def __init__(self, params, body, max_paths=64, loop_bound=16):
        self.params = params
        self.body = body
        self.max_paths = max_paths
        self.loop_bound = loop_bound
        self.queries = 0

    def run(self, args, arrays, pre):
        if len(args) != len(self.params):
            raise Unsupported("arity: %d parameters, %d arguments" % (len(self.params), len(args)))
        work = [[]]
        done = []
        while work:
            prefix = work.pop()
            if len(done) + len(work) > self.max_paths:
                raise Unsupported("more than %d paths" % self.max_paths)
            self.decisions = list(prefix)
            self.pending = []
            self.pos = 0
            self.pc = list(pre)
            self.arrays = {k: list(v) for k, v in arrays.items()}
            self.fresh = 0
            env = dict(zip(self.params, args))
            try:
                self.exec_stmt(self.body, env)
                done.append(Path(self.pc, "return", UNDEF, self.arrays))
            except _Return as r:
                done.append(Path(self.pc, "return", r.v, self.arrays))
            except _Throw as t:
                done.append(Path(self.pc, "throw", t.v, self.arrays, why=t.v.s if isinstance(t.v, Str) else None))
            except _OobStore as o:
                done.append(Path(self.pc, "oob-store", None, self.arrays, why=str(o)))
            for alt in self.pending:
                work.append(alt)
        return done

    # a symbolic decision: follow the prefix; beyond it take the feasible side(s), scheduling the other

    def decide(self, cond):
        cond = z3.simplify(cond)
        if z3.is_true(cond):
            return True
        if z3.is_false(cond):
            return False
        if self.pos < len(self.decisions):
            d = self.decisions[self.pos]
        else:
            can_t = self.feasible(cond)
            can_f = self.feasible(z3.Not(cond))
            if can_t and can_f:
                self.pending.append(self.decisions[:self.pos] + [False])
                d = True
            elif can_t:
                d = True
            elif can_f:
                d = False
            else:
                raise Unsupported("path condition became unsatisfiable")
            self.decisions.append(d)
        self.pos += 1
        self.pc.append(cond if d else z3.Not(cond))
        return d

    def feasible(self, c):
        s = z3.Solver()
        s.set("timeout", 10000)
        s.add(*self.pc)
        s.add(c)
        self.queries += 1
        r = s.check()
        if r == z3.unknown:
            raise Unsupported("solver unknown on a branch condition")
        return r == z3.sat

    # ---- statements
    def exec_stmt(self, s, env):
        k = s[0]
        if k == "block":
            inner = dict(env)
            for x in s[1]:
                self.exec_stmt(x, inner)
            for name in env:
                env[name] = inner[name]
        elif k == "if":
            if self.truthy(self.ev(s[1], env)):
                self.exec_stmt(s[2], env)
            elif s[3] is not None:
                self.exec_stmt(s[3], env)
        elif k == "return":
            raise _Return(UNDEF if s[1] is None else self.ev(s[1], env))
        elif k == "throw":
            raise _Throw(self.ev(s[1], env))
        elif k == "decl":
            env[s[1]] = self.ev(s[2], env)
        elif k == "for":
            inner = dict(env)
            inner[s[1]] = self.ev(s[2], inner)
            n = 0
            while self.truthy(self.ev(s[3], inner)):
                n += 1
                if n > self.loop_bound:
                    raise Unsupported("loop bound %d exceeded" % self.loop_bound)
                self.exec_stmt(s[5], inner)
                self.ev(s[4], inner)
            for name in env:
                env[name] = inner[name]
        elif k == "expr":
            self.ev(s[1], env)
        else:
            raise Unsupported("statement %r" % k)

    # ---- expressions
    def truthy(self, v):
        if isinstance(v, Bool):
            return self.decide(v.b)
        if isinstance(v, Num):
            return self.decide(v.t != BV(0))
        if v is UNDEF:
            return False
        if isinstance(v, Arr):
            return True
        if isinstance(v, Str):
            return v.s != ""
        raise Unsupported("truthiness of %r" % (v,))

    def ev(self, e, env):
        k = e[0]
        if k == "num":
            return Num(BV(e[1]))
        if k == "str":
            return Str(e[1])
        if k == "undef":
            return UNDEF
        if k == "var":
            if e[1] not in env:
                raise Unsupported("free variable %s" % e[1])
            return env[e[1]]
        if k == "array":
            self.fresh += 1
            a = Arr("new%d" % self.fresh)
            self.arrays[a.name] = [self.ev(x, env) for x in e[1]]
            return a
        if k == "not":
            return Bool(z3.BoolVal(not self.truthy(self.ev(e[1], env))))
        if k == "neg":
            v = self.ev(e[1], env)
            if not isinstance(v, Num):
                raise Unsupported("negation of a non-number")
            return Num(-v.t)
        if k == "bin":
            return self.binop(e[1], e[2], e[3], env)
        if k == "member":
            o = self.ev(e[1], env)
            if e[2] == "length" and isinstance(o, Arr):
                return Num(BV(len(self.arrays[o.name])))
            raise Unsupported("member .%s" % e[2])
        if k == "index":
            o = self.ev(e[1], env)
            i = self.ev(e[2], env)
            if not isinstance(o, Arr) or not isinstance(i, Num):
                raise Unsupported("index of a non-array")
            elems = self.arrays[o.name]
            for j in range(len(elems)):
                if self.decide(i.t == BV(j)):
                    return elems[j]
            return UNDEF
        if k == "mcall":
            o = self.ev(e[1], env)
            if not isinstance(o, Arr):
                raise Unsupported("method call on a non-array")
            elems = self.arrays[o.name]
            if e[2] == "pop" and not e[3]:
                return elems.pop() if elems else UNDEF
            if e[2] == "push" and len(e[3]) == 1:
                elems.append(self.ev(e[3][0], env))
                return Num(BV(len(elems)))
            raise Unsupported("array method %s" % e[2])
        if k == "call":
            if e[1] == ("var", "Error") and len(e[2]) == 1:
                return self.ev(e[2][0], env)
            raise Unsupported("call of %r" % (e[1],))
        if k == "assign":
            v = self.ev(e[2], env)
            tgt = e[1]
            if tgt[0] == "var":
                if tgt[1] not in env:
                    raise Unsupported("assignment to an undeclared variable")
                env[tgt[1]] = v
                return v
            o = self.ev(tgt[1], env)
            i = self.ev(tgt[2], env)
            if not isinstance(o, Arr) or not isinstance(i, Num):
                raise Unsupported("element store into a non-array")
            elems = self.arrays[o.name]
            for j in range(len(elems)):
                if self.decide(i.t == BV(j)):
                    elems[j] = v
                    return v
            raise _OobStore("store outside the array's current length (JavaScript grows the array or adds a property)")
        if k == "postinc":
            tgt = e[1]
            if tgt[0] != "var" or not isinstance(env.get(tgt[1]), Num):
                raise Unsupported("++ on a non-variable")
            old = env[tgt[1]]
            env[tgt[1]] = Num(z3.simplify(old.t + BV(1)))
            return old
        raise Unsupported("expression %r" % k)

    def binop(self, op, a, b, env):
        if op == "||":
            l = self.ev(a, env)
            return l if self.truthy(l) else self.ev(b, env)
        if op == "&&":
            l = self.ev(a, env)
            return self.ev(b, env) if self.truthy(l) else l
        l = self.ev(a, env)
        r = self.ev(b, env)
        if op in ("===", "!==", "==", "!="):
            neg = op in ("!==", "!=")
            if isinstance(l, Num) and isinstance(r, Num):
                c = l.t == r.t
            elif isinstance(l, Arr) and isinstance(r, Arr):
                c = z3.BoolVal(l.name == r.name)
            elif isinstance(l, Bool) and isinstance(r, Bool):
                c = l.b == r.b
            elif (l is UNDEF) and (r is UNDEF):
                c = z3.BoolVal(True)
            elif op in ("===", "!==") and type(l) is not type(r):
                c = z3.BoolVal(False)
            else:
                raise Unsupported("loose comparison of %s and %s" % (type(l).__name__, type(r).__name__))
            return Bool(z3.Not(c) if neg else c)
        if not (isinstance(l, Num) and isinstance(r, Num)):
            if op in ("<", "<=", ">", ">=") and (l is UNDEF or r is UNDEF):
                return Bool(z3.BoolVal(False))      # NaN comparisons
            raise Unsupported("%s on non-numbers" % op)
        if op == "<":
            return Bool(l.t < r.t)
        if op == "<=":
            return Bool(l.t <= r.t)
        if op == ">":
            return Bool(l.t > r.t)
        if op == ">=":
            return Bool(l.t >= r.t)
        # + and - on doubles do not wrap: only claim them while no i32 overflow is possible
        wide = (z3.SignExt(1, l.t) + z3.SignExt(1, r.t)) if op == "+" else (z3.SignExt(1, l.t) - z3.SignExt(1, r.t))
        res = (l.t + r.t) if op == "+" else (l.t - r.t)
        if self.feasible(z3.SignExt(1, res) != wide):
            raise Unsupported("number arithmetic leaves the i32 range")
        return Num(res)


class _OobStore(Exception):
    pass
