"""C18 (E-T): one inductive step of each std Map / Set operation from an ARBITRARY valid tree.

`corpus_spec/MapSpec.sam` and `corpus_spec/SetSpec.sam` state, in samlang, the representation invariant of
std/map.sam and std/set.sam and the finite map / set a tree denotes; each `step*` function assumes the invariant
for symbolic trees of bounded height, performs one real operation and asserts the finite-map meaning of the
result (and that the invariant is re-established).  The programs are compiled by the real compiler together with
the current std sources; E-T executes the MIR of each step function on symbolic arguments (lazily initialised
trees constrained to well-formed representations) and asks the solver whether any `Process.panic` is reachable.
Because the pre-state is arbitrary, one step covers operation sequences of any length over trees within the
height bound.  A witness is replayed in node on the TypeScript the real compiler emits for the same program and
reported only if the same panic occurs there.
"""
import concurrent.futures
import json
import os
import random
import re
import subprocess
import time

import z3

from vlib import irsym, ts2js
from vlib.common import Inconclusive, VERIF, load_known

BOUNDS = {"forks": 50, "steps": 400000, "paths": 40000, "depth": 80}

# per specification program: (step function, time budget in the quick tier (s), suffix of the std function a path must enter)
SPECS = [
    {"name": "MapSpec", "lib": "std$map",
     "steps": [
         ("stepGet", 200, "$get"), ("stepInsert", 120, "$insert"), ("stepRemove", 420, "$remove"), ("stepMinMax", 240, "$min"),
         ("stepRemoveRoot", 420, "$remove"), ("stepKeys", 300, "$keys"), ("stepEntries", 300, "$entries"), ("stepFold", 300, "$fold"),
         ("stepQuantifiers", 300, "$exists"), ("stepUpdateSet", 200, "$update"), ("stepUpdateDel", 420, "$update"),
         ("stepUpdateMod", 300, "$update"), ("stepSplit", 420, "$split"), ("stepFilter", 420, "$filter"),
         ("stepPartition", 420, "$partition"), ("stepCompare", 420, "$compare"),
         ("stepMerge", 420, "$merge"), ("stepMergeTallLeft", 420, "$merge"), ("stepEqualShapes", 420, "$equal"),
     ]},
    {"name": "SetSpec", "lib": "std$set",
     "steps": [
         ("stepContains", 200, "$contains"), ("stepInsert", 120, "$insert"), ("stepRemove", 420, "$remove"),
         ("stepRemoveRoot", 420, "$remove"), ("stepMinMax", 240, "$min"), ("stepElements", 300, "$elements"),
         ("stepFold", 300, "$fold"), ("stepSplit", 420, "$split"), ("stepFilter", 420, "$filter"), ("stepUnion", 420, "$union"),
         ("stepIntersection", 420, "$intersection"), ("stepDiff", 420, "$diff"), ("stepSubset", 420, "$subset"),
         ("stepCompare", 420, "$compare"), ("stepFromList", 300, "$fromList"), ("stepMap", 420, "$map"), ("stepMapClamp", 420, "$map"),
         ("stepEqualShapes", 420, "$equal"), ("stepCompareTie", 420, "$compare"),
     ]},
]
SPECS.append(
    {"name": "ListSpec", "lib": "std$list",
     "steps": [("stepReverse", 200, "$reverse"), ("stepAppend", 200, "$append"), ("stepFilter", 200, "$filter"),
               ("stepSearch", 200, "$find"), ("stepBind", 200, "$bind")]})
SPECS.append(
    {"name": "SetInternalsSpec", "lib": "std$set", "open": "set",
     "steps": [("stepJoinTallLeft", 420, "$join"), ("stepJoinTallRight", 420, "$join"), ("stepJoinBoth", 420, "$join"),
               ("stepConcat", 420, "$concat"), ("stepBalancedTallLeft", 420, "$balanced"), ("stepBalancedTallRight", 420, "$balanced"), ("stepAddMinMax", 300, "$addMinElement")]})
SPECS.append(
    {"name": "MapInternalsSpec", "lib": "std$map", "open": "map",
     "steps": [("stepJoinTallLeft", 420, "$join"), ("stepJoinTallRight", 420, "$join"), ("stepJoinBoth", 420, "$join"),
               ("stepConcat", 420, "$concat"), ("stepInternalMerge", 420, "$internalMerge"), ("stepBalancedTallLeft", 420, "$balanced"), ("stepBalancedTallRight", 420, "$balanced"),
               ("stepAddBinding", 300, "$addMinBinding")]})
STD = ["map", "set", "list", "option", "boxed", "tuples", "interfaces", "result"]


def tname(ty):
    return ty if isinstance(ty, str) else ty.get("id")


def js_value(witness, key, ty, types, depth=0):
    """the concrete value a solver model assigns to the unknown object `key` of MIR type `ty`, in the representation
    of the emitted TypeScript: struct = [fields..], data-free variant k = 2k+1, boxed variant k = [2k+1, fields..],
    unboxed variant = its payload"""
    F = witness["object_fields"]
    facts = witness["object_facts"]
    if depth > 12:
        raise Inconclusive("model value of %s is too deep" % key)
    t = types.get(tname(ty))
    if t is None:
        raise Inconclusive("cannot turn the model value of %s : %s into a concrete value" % (key, ty))

    def field(view, i, fty):
        k = "%s@%s.f%d" % (key, view, i)
        if fty == "int":
            return F.get(k, 0)
        return js_value(witness, k, fty, types, depth + 1)

    if t["kind"] == "struct":
        return [field(t["name"], i, fty) for i, fty in enumerate(t["fields"])]
    variants = t.get("variants") or []
    tag = F.get(key + "@#tag.f0")
    for k, var in enumerate(variants):
        if var["k"] == "boxed" and tag == 2 * k + 1 and not facts.get("isi31!" + key):
            view = "%s$_Sub%d" % (t["name"], k)
            return [tag] + [field(view, i, fty) for i, fty in enumerate(var["fields"]) if i > 0]
    for k, var in enumerate(variants):
        if var["k"] == "unboxed" and facts.get("isptr!%s!%s" % (key, var["t"])):
            return js_value(witness, key, var["t"], types, depth + 1)
    data_free = [k for k, var in enumerate(variants) if var["k"] == "int31"]
    if data_free:
        k = witness.get("i31", {}).get(key)
        return 2 * (k if k in data_free else data_free[0]) + 1
    raise Inconclusive("cannot turn the model value of %s : %s into a concrete value" % (key, ty))


def replay(js_text, main_call, fn, params, ptypes, types, witness, workdir, tag):
    """run the witness against the program the real compiler emitted (its TypeScript output, types stripped, in node).
    -> (panic message or None, js value list)"""
    m = re.search(r"^function %s\(([^)]*)\) \{$" % re.escape(fn), js_text, re.M)
    if not m:
        raise Inconclusive("replay: %s is not a function of the emitted program" % fn)
    names = [x.strip() for x in m.group(1).split(",") if x.strip()]
    vals = []
    for n in names:
        i = params.index(n)
        ty = ptypes[i]
        vals.append(witness["arguments"].get(n, 0) if ty == "int" else js_value(witness, "a%d" % i, ty, types))
    body = "\n".join(l for l in js_text.split("\n") if l.strip() != main_call)
    body += "\nconst ARGS = %s;\ntry { %s(...ARGS); console.log('REPLAY returned'); } catch (e) { console.log('REPLAY PANIC ' + e.message); }\n" % (json.dumps(vals), fn)
    path = os.path.join(workdir, "replay_%s.js" % tag)
    open(path, "w").write(body)
    p = subprocess.run(["node", "--stack-size=4000", path], capture_output=True, text=True, timeout=120)
    out = [l for l in p.stdout.split("\n") if l.startswith("REPLAY ")]
    if not out:
        raise Inconclusive("replay: node produced no verdict: %s" % (p.stderr[-300:]))
    return (out[-1][len("REPLAY PANIC "):] if out[-1].startswith("REPLAY PANIC ") else None), vals


def _run_step(job):
    mir_file, spec, step, seconds, op, lib, seed = job
    P = irsym.Prog(json.load(open(mir_file)))
    names = [n for n in P.fns if n.endswith("$" + step)]
    if len(names) != 1:
        return {"spec": spec, "step": step, "status": "missing"}
    fn = names[0]
    w = irsym.World()
    w.is_subtype = P.is_subtype
    w.types = P.types
    b = dict(BOUNDS, seconds=seconds)
    ex = irsym.Exec(P, w, "new", True, b)
    ex.deadline = time.time() + seconds
    ex.merge_pure = True      # pure if/else diamonds of the specification are joined with ite instead of forking
    if seed:
        ex.rng = random.Random("%s.%s.%d" % (spec, step, seed))
    f = P.fns[fn]
    args = irsym.mk_args(f, w)
    t0 = time.time()
    try:
        paths = ex.run(fn, args)
    except irsym.Unsupported as e:
        return {"spec": spec, "step": step, "status": "unsupported", "why": str(e)}
    out = {"spec": spec, "step": step, "status": "ok", "paths": len(paths), "returned": 0, "bounded": 0, "panic_paths": 0,
           "infeasible_panic_paths": 0, "reached_operation": 0, "violations": [], "wall_s": 0, "queries": ex.queries,
           "fn": fn, "params": f["params"], "ptypes": f["ptypes"]}
    chk = z3.Solver()
    chk.set("timeout", 30000)
    per_msg = {}
    for p in paths:
        if any(n.endswith(op) and lib in n for n in getattr(p, "entered", ())):
            out["reached_operation"] += 1
        if p.outcome == "return":
            out["returned"] += 1
        elif p.outcome == "bound":
            out["bounded"] += 1
        elif p.outcome in ("panic", "trap"):
            out["panic_paths"] += 1
            chk.push()
            chk.add(*p.pc)
            chk.add(*w.axioms)
            r = chk.check()
            if r == z3.sat:
                m = chk.model()
                if p.trace and p.trace[-1][0] == "__Process$panic":
                    a = p.trace[-1][2][-1] if p.trace[-1][2] else None
                    msg = a.s if isinstance(a, irsym.Str) else repr(a)
                else:
                    msg = p.why or p.outcome
                per_msg[msg] = per_msg.get(msg, 0) + 1
                if per_msg[msg] <= 3:
                    out["violations"].append({"message": msg, "outcome": p.outcome, "witness": irsym.model_args(m, f, w),
                                              "entered": sorted(n for n in getattr(p, "entered", ()) if lib in n)[:12]})
                else:
                    out["violations"].append({"message": msg})
            elif r == z3.unsat:
                out["infeasible_panic_paths"] += 1
            else:
                out["status"] = "inconclusive"
            chk.pop()
    out["wall_s"] = round(time.time() - t0, 1)
    return out


def open_copy(sc, module):
    """a copy of the scratch std/<module>.sam in which the `private` modifier of class members is dropped (nothing
    else changes), so that a specification program can drive join / concat / balanced directly"""
    src = open(os.path.join(sc.w, "std", module + ".sam")).read()
    out, n = re.subn(r"(?m)^(\s*)private (function|method) ", r"\1\2 ", src)
    if n == 0:
        raise Inconclusive("std/%s.sam has no private members any more: the internals specification needs a review" % module)
    d = os.path.join(sc.root, "et", "std_open")
    os.makedirs(d, exist_ok=True)
    path = os.path.join(d, module + ".sam")
    open(path, "w").write(out)
    return path


def prepare(sc, drv, scale=1, only=None, seed=0):
    """compile the specification programs against the scratch copy of std; -> (jobs, progs)"""
    std_mods = ["std.%s=%s" % (m, os.path.join(sc.w, "std", m + ".sam")) for m in STD if os.path.exists(os.path.join(sc.w, "std", m + ".sam"))]
    jobs = []
    progs = {}
    for sp in SPECS:
        src = os.path.join(VERIF, "corpus_spec", sp["name"] + ".sam")
        od = os.path.join(sc.root, "et", sp["name"])
        mods = [sp["name"] + "=" + src] + std_mods
        if sp.get("open"):
            mods = [m for m in mods if not m.startswith("std.%s=" % sp["open"])] + ["std.%s=%s" % (sp["open"], open_copy(sc, sp["open"]))]
        p = drv.call(["dump", od, "none"] + mods, check=False, timeout=600)
        if '"status":"ok"' not in p.stdout:
            raise Inconclusive("the specification program %s does not compile against the current std: %s" % (sp["name"], p.stdout[:400]))
        mir = os.path.join(od, "mir_unopt.json")
        progs[sp["name"]] = {"mods": mods, "mir": mir, "js": None, "dir": os.path.join(sc.root, "et", sp["name"] + "Run")}
        for step, secs, op in sp["steps"]:
            if only is None or "%s.%s" % (sp["name"], step) in only:
                jobs.append((mir, sp["name"], step, secs * scale, op, sp["lib"], seed))
    return jobs, progs


def run(res, tier, sc, drv):
    scale = 1 if tier == "quick" else 6
    only = os.environ.get("VERIF_C18_ONLY")
    jobs, progs = prepare(sc, drv, scale, set(only.split(",")) if only else None, res.seed)
    known = load_known("C18")
    results = []
    with concurrent.futures.ProcessPoolExecutor(max_workers=min(len(jobs), max(2, (os.cpu_count() or 4) - 1))) as ex:
        for r in ex.map(_run_step, jobs):
            results.append(r)
    total_paths = 0
    replayed = 0
    for r in results:
        label = "%s.%s" % (r["spec"], r["step"])
        if r["status"] in ("missing", "unsupported"):
            res.inconc("step %s: %s %s" % (label, r["status"], r.get("why", "")))
            continue
        if r["status"] == "inconclusive":
            res.inconc("step %s: solver unknown on a panic path" % label)
        total_paths += r["paths"]
        if r["reached_operation"] == 0:
            res.inconc("step %s is vacuous: no path entered the operation under test" % label)
        msgs = {}
        for v in r["violations"]:
            msgs.setdefault(v["message"], []).append(v)
        pg = progs[r["spec"]]
        for msg, vs in msgs.items():
            # replay the solver's witness against the program the real compiler emits before reporting it
            if pg["js"] is None:
                pc = drv.call(["compile", pg["dir"], r["spec"]] + pg["mods"], check=False, timeout=600)
                if '"status":"ok"' not in pc.stdout:
                    raise Inconclusive("replay: the specification program does not compile to TypeScript: %s" % pc.stdout[:300])
                pg["js"] = ts2js.strip(open(os.path.join(pg["dir"], r["spec"] + ".ts")).read())
                pg["types"] = {t["name"]: t for t in json.load(open(pg["mir"]))["types"]}
            confirmed = None
            tried = 0
            for v in vs:
                if "witness" not in v:
                    continue
                tried += 1
                got, vals = replay(pg["js"], "_%s_Main$main();" % r["spec"], r["fn"], r["params"], r["ptypes"], pg["types"], v["witness"], pg["dir"],
                                   "%s_%d" % (r["step"], tried))
                v["replay"] = {"arguments": vals, "panic": got}
                if got is not None and (got == msg or not msg.startswith("SPEC")):
                    confirmed = v
                    break
            if confirmed is None:
                res.inconc("step %s: the solver reports `%s` reachable but %d witness(es) did not replay on the emitted program (model of the heap too weak?)"
                           % (label, msg, tried))
                continue
            replayed += 1
            kn = [k for k in known if k.get("step") == label and k.get("message") == msg]
            if kn:
                res.known("%s std %s: %s" % (kn[0]["id"], label, kn[0]["short"]))
            else:
                res.violation("std %s: `%s` is reachable from a valid tree (%d paths; witness replayed on the emitted program: %s)"
                              % (label, msg or "match fallback / Bad tree", len(vs), json.dumps(confirmed["replay"]["arguments"])),
                              {"property": "C18", "step": label, "message": msg, "example": confirmed,
                               "how_to_replay": "compile corpus_spec/%s.sam with the real compiler, strip types from %s.ts (vlib/ts2js.py), call %s(...arguments) in node"
                                                % (r["spec"], r["spec"], r["fn"])})
        res.sample({k: v for k, v in r.items() if k not in ("violations", "params", "ptypes")})
    res.coverage.update({
        "states": max(1, total_paths), "transitions": max(1, len(results)), "traces_validated_against_impl": replayed,
        "steps": [{k: v for k, v in r.items() if k not in ("violations", "params", "ptypes")} for r in results],
        "bounds": {"tree height": "<= 3 (insert / update(Some) / two-tree operations / map: <= 2; removal of the root: <= 4; fromList: lists of <= 3 elements)",
                   "keys": "|k| < 10^9 (Int.compare cannot overflow)",
                   "time per step (s)": {"%s.%s" % (j[1], j[2]): j[3] for j in jobs}},
        "seed": res.seed,
        "explanation": "states = symbolic paths explored (each a tree shape x key ordering class, all key/value integers symbolic); one inductive "
                       "step per operation from arbitrary trees satisfying the representation invariant written in corpus_spec/*.sam; "
                       "`bounded` paths were cut by the time budget and are not claimed; with VERIF_SEED != 0 the order in which the two sides of a "
                       "decision are explored is drawn from the seed, so budget-limited steps cover a different part of the path space per seed",
    })
    res.assumptions += [
        "the representation invariant and the finite-map / finite-set meaning are the ones written in corpus_spec/MapSpec.sam and SetSpec.sam (BST order, exact stored heights, |hl - hr| <= 2, Node height >= 2)",
        "executed on the unoptimized MIR of the real compiler (the optimizer and the back ends are validated separately under C01 / C02)",
        "Map<Int, int> and Set<Int> only; predicates / functions passed to higher-order operations are the fixed closures of the specification programs",
        "not covered: List operations on their own, Map.union / merge (do not compile: F13), iter, other key types, trees above the height bounds",
    ]
