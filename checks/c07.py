"""C07 (E-D): exhaustiveness / usefulness of the real checker vs. a z3 algebraic-datatype oracle.

For every pattern list (enumerated, not sampled, up to the stated bound) the real
`type_check_sources` runs on a generated module; z3 decides, over ALL values of the scrutinee
type (unbounded depth: QF datatypes), whether some value escapes every arm.
"""
import itertools
import json
import os
import random
import re
import time

import z3

from vlib.common import Inconclusive, log, VERIF

# ----------------------------------------------------------------------------------------
# type universes.  A type is a string key; each universe maps keys to definitions.
#   enums:   key -> (source syntax of the type, [(variant, [arg type keys])])
#   structs: key -> (source syntax, [(field, type key)])
#   tuples:  key -> (source syntax, [type keys])            (std.tuples Pair / Triple)
#   'int' is primitive.

UNIVERSES = [
    {
        "name": "U1-mutual-recursion",
        "decls": "class E0(A, B(int), C(E0, E1)) {}\nclass E1(X(E0), Y) {}\nclass S0(val a: E0, val b: E1) {}\n",
        "enums": {"E0": ("E0", [("A", []), ("B", ["int"]), ("C", ["E0", "E1"])]),
                  "E1": ("E1", [("X", ["E0"]), ("Y", [])])},
        "structs": {"S0": ("S0", [("a", "E0"), ("b", "E1")])},
        "tuples": {"P01": ("Pair<E0, E1>", ["E0", "E1"])},
        "scrutinees": ["E0", "E1", "S0", "P01"],
    },
    {
        "name": "U2-nested-options",
        "decls": "class Bl(T, F) {}\nclass O2(N2, S2(Bl)) {}\nclass O1(N1, S1(O2)) {}\n",
        "enums": {"Bl": ("Bl", [("T", []), ("F", [])]),
                  "O2": ("O2", [("N2", []), ("S2", ["Bl"])]),
                  "O1": ("O1", [("N1", []), ("S1", ["O2"])]),
                  "OptBl": ("Option<Bl>", [("None", []), ("Some", ["Bl"])]),
                  "OptOptBl": ("Option<Option<Bl>>", [("None", []), ("Some", ["OptBl"])]),
                  "ResBlO2": ("Result<Bl, O2>", [("Ok", ["Bl"]), ("Error", ["O2"])])},
        "structs": {},
        "tuples": {"PBB": ("Pair<Bl, Bl>", ["Bl", "Bl"]), "POB": ("Pair<Option<Bl>, Bl>", ["OptBl", "Bl"])},
        "scrutinees": ["O1", "OptOptBl", "ResBlO2", "PBB", "POB"],
    },
    {
        "name": "U3-three-variants-structs",
        "decls": "class Bl(T, F) {}\nclass K(K0, K1(Bl, Bl), K2(Bl)) {}\nclass S1(val p: Pair<Bl, K>, val q: Bl) {}\nclass S2(val only: K) {}\nclass W1(Wrap(Bl)) {}\nclass W2(Both(W1, Bl)) {}\n",
        "enums": {"Bl": ("Bl", [("T", []), ("F", [])]),
                  "K": ("K", [("K0", []), ("K1", ["Bl", "Bl"]), ("K2", ["Bl"])]),
                  # enums with a single variant: a variant pattern over them can be irrefutable
                  "W1": ("W1", [("Wrap", ["Bl"])]),
                  "W2": ("W2", [("Both", ["W1", "Bl"])])},
        "structs": {"S1": ("S1", [("p", "PBK"), ("q", "Bl")]), "S2": ("S2", [("only", "K")])},
        "tuples": {"PBK": ("Pair<Bl, K>", ["Bl", "K"]), "TBBB": ("Triple<Bl, Bl, Bl>", ["Bl", "Bl", "Bl"])},
        "scrutinees": ["K", "S1", "S2", "TBBB", "W1", "W2"],
    },
    {
        "name": "U4-recursive-list",
        "decls": "class Bl(T, F) {}\nclass L(Nil, Cons(Bl, L)) {}\nclass W(Wrap(L), Two(L, L)) {}\n",
        "enums": {"Bl": ("Bl", [("T", []), ("F", [])]),
                  "L": ("L", [("Nil", []), ("Cons", ["Bl", "L"])]),
                  "W": ("W", [("Wrap", ["L"]), ("Two", ["L", "L"])])},
        "structs": {},
        "tuples": {},
        "scrutinees": ["L", "W"],
    },
]

HEADER = ("import { Option } from std.option;\nimport { Result } from std.result;\nimport { Pair, Triple } from std.tuples;\n"
          "class Wr { function <T> id(t: T): T = t  function inc(x: int): int = x + 1 }\n")

# patterns are tuples: ("w",) wildcard | ("v", name) variable | ("c", variant, [pats]) |
#                      ("s", [pats]) struct/tuple positional | ("o", [pats]) or


def kind(U, t):
    if t == "int":
        return "int"
    if t in U["enums"]:
        return "enum"
    if t in U["structs"]:
        return "struct"
    if t in U["tuples"]:
        return "tuple"
    raise KeyError(t)


def pats(U, t, depth, allow_or=True):
    """all patterns of constructor depth <= depth (wildcards at the leaves)"""
    out = [("w",)]
    if depth == 0:
        return out
    k = kind(U, t)
    if k == "int":
        return out
    ctor = []
    if k == "enum":
        for v, args in U["enums"][t][1]:
            subs = [pats(U, a, depth - 1, allow_or=True) for a in args]
            for combo in itertools.product(*subs):
                ctor.append(("c", v, list(combo)))
    else:
        fields = [ft for _, ft in U["structs"][t][1]] if k == "struct" else U["tuples"][t][1]
        subs = [pats(U, a, depth - 1, allow_or=True) for a in fields]
        for combo in itertools.product(*subs):
            if all(c == ("w",) for c in combo) and False:
                continue
            ctor.append(("s", list(combo)))
        if k == "struct":
            # object patterns that mention a field twice (`{ a as A, a as B(_), b as _ }`): the lowering tests both
            # sub-patterns, so the analysis must either refuse the pattern or treat it as their conjunction
            for fi, ft in enumerate(fields):
                if kind(U, ft) != "enum":
                    continue
                heads = [q for q in pats(U, ft, 1, allow_or=False) if q[0] == "c"]
                for a, b in list(itertools.permutations(heads, 2))[:4] + [(h, ("w",)) for h in heads[:2]]:
                    items = [(fi, a), (fi, b)] + [(j, ("w",)) for j in range(len(fields)) if j != fi]
                    ctor.append(("sd", items))
                    ctor.append(("sd", items[2:] + items[:2]))
    out += ctor
    if allow_or and k == "enum":
        # or-patterns between two depth-1 constructor patterns of the same type
        flat = [c for c in ctor if all(a == ("w",) for a in c[2])]
        for a, b in itertools.combinations(flat, 2):
            out.append(("o", [a, b]))
        # an alternative that is a wildcard makes the whole or-pattern irrefutable, wherever it stands
        for a in flat[:2]:
            out.append(("o", [a, ("w",)]))
            out.append(("o", [("w",), a]))
        # alternatives that share their head constructor and differ in the payload (`Some(Red) | Some(Green)`),
        # alone and next to an alternative with another constructor; a bounded number per variant
        for v, args in U["enums"][t][1]:
            group = [c for c in ctor if c[1] == v and not all(a == ("w",) for a in c[2]) and not any(x[0] == "o" for x in c[2])]
            same = list(itertools.combinations(group, 2))[:6]
            for a, b in same:
                out.append(("o", [a, b]))
            others = [c for c in flat if c[1] != v]
            for (a, b), c in list(zip(same, itertools.cycle(others)))[:3] if others else []:
                out.append(("o", [a, c, b]))
    return out


def show(U, t, p, fresh):
    if p[0] == "w":
        return "_"
    if p[0] == "v":
        return p[1]
    if p[0] == "o":
        return " | ".join(show(U, t, q, fresh) for q in p[1])
    k = kind(U, t)
    if p[0] == "c":
        args = dict(U["enums"][t][1])[p[1]]
        if not args:
            return p[1]
        return "%s(%s)" % (p[1], ", ".join(show(U, a, q, fresh) for a, q in zip(args, p[2])))
    if p[0] == "sd":
        fl = U["structs"][t][1]
        return "{ " + ", ".join("%s as %s" % (fl[fi][0], show(U, fl[fi][1], q, fresh)) for fi, q in p[1]) + " }"
    if k == "struct":
        parts = []
        for (fn, ft), q in zip(U["structs"][t][1], p[1]):
            parts.append("%s as %s" % (fn, show(U, ft, q, fresh)))
        return "{ " + ", ".join(parts) + " }"
    return "(" + ", ".join(show(U, a, q, fresh) for a, q in zip(U["tuples"][t][1], p[1])) + ")"


def with_vars(p, counter):
    """replace some wildcards (outside or-patterns) by fresh variables so that variable patterns
    are exercised too"""
    if p[0] == "w":
        counter[0] += 1
        if counter[0] % 3 == 0:
            return ("v", "x%d" % counter[0])
        return p
    if p[0] == "c":
        return ("c", p[1], [with_vars(q, counter) for q in p[2]])
    if p[0] == "s":
        return ("s", [with_vars(q, counter) for q in p[1]])
    return p


def has_dup(p):
    if p[0] == "sd":
        return True
    if p[0] == "c":
        return any(has_dup(q) for q in p[2])
    if p[0] in ("s", "o"):
        return any(has_dup(q) for q in p[1])
    return False


# ----------------------------------------------------------------------------------------
# oracle

class Oracle:
    def __init__(self, U):
        self.U = U
        names = list(U["enums"]) + list(U["structs"]) + list(U["tuples"])
        dts = {n: z3.Datatype("T_" + n) for n in names}

        def sort_of(t):
            return z3.IntSort() if t == "int" else dts[t]
        for n, (_, variants) in U["enums"].items():
            for v, args in variants:
                dts[n].declare("%s__%s" % (n, v), *[("%s__%s_%d" % (n, v, i), sort_of(a)) for i, a in enumerate(args)])
        for n, (_, fields) in U["structs"].items():
            dts[n].declare("mk_" + n, *[("%s_f%d" % (n, i), sort_of(ft)) for i, (_, ft) in enumerate(fields)])
        for n, (_, elems) in U["tuples"].items():
            dts[n].declare("mk_" + n, *[("%s_f%d" % (n, i), sort_of(ft)) for i, ft in enumerate(elems)])
        created = z3.CreateDatatypes(*[dts[n] for n in names])
        self.sorts = dict(zip(names, created))
        self.solver = z3.Solver()
        self.solver.set("timeout", 30000)
        self.queries = 0
        self.time = 0.0

    def sort(self, t):
        return z3.IntSort() if t == "int" else self.sorts[t]

    def matches(self, t, p, v):
        if p[0] in ("w", "v"):
            return z3.BoolVal(True)
        if p[0] == "o":
            return z3.Or(*[self.matches(t, q, v) for q in p[1]])
        U = self.U
        s = self.sort(t)
        if p[0] == "c":
            variants = [x for x, _ in U["enums"][t][1]]
            idx = variants.index(p[1])
            args = U["enums"][t][1][idx][1]
            conj = [s.recognizer(idx)(v)]
            for i, (a, q) in enumerate(zip(args, p[2])):
                conj.append(self.matches(a, q, s.accessor(idx, i)(v)))
            return z3.And(*conj)
        k = kind(U, t)
        fields = [ft for _, ft in U["structs"][t][1]] if k == "struct" else U["tuples"][t][1]
        if p[0] == "sd":
            return z3.And(*[self.matches(fields[fi], q, s.accessor(0, fi)(v)) for fi, q in p[1]])
        return z3.And(*[self.matches(a, q, s.accessor(0, i)(v)) for i, (a, q) in enumerate(zip(fields, p[1]))])

    def check(self, *assertions):
        self.queries += 1
        t0 = time.time()
        self.solver.push()
        self.solver.add(*assertions)
        r = self.solver.check()
        self.solver.pop()
        self.time += time.time() - t0
        if r == z3.unknown:
            raise Inconclusive("z3 returned unknown on a QF datatype query")
        return r == z3.sat


# ----------------------------------------------------------------------------------------
# counterexample text -> pattern (typed)

class CexParser:
    def __init__(self, U, text):
        self.U = U
        self.toks = re.findall(r"[A-Za-z_][A-Za-z0-9_]*|[(),|]", text)
        self.i = 0

    def peek(self):
        return self.toks[self.i] if self.i < len(self.toks) else None

    def eat(self, t=None):
        x = self.peek()
        if t is not None and x != t:
            raise ValueError("expected %s got %s" % (t, x))
        self.i += 1
        return x

    def parse(self, t):
        p = self.alt(t)
        if self.peek() is not None:
            raise ValueError("trailing tokens")
        return p

    def alt(self, t):
        ps = [self.atom(t)]
        while self.peek() == "|":
            self.eat("|")
            ps.append(self.atom(t))
        return ps[0] if len(ps) == 1 else ("o", ps)

    def atom(self, t):
        x = self.peek()
        if x == "_":
            self.eat()
            return ("w",)
        k = kind(self.U, t)
        if x == "(":
            if k not in ("struct", "tuple"):
                raise ValueError("tuple-shaped counterexample at type %s" % t)
            fields = [ft for _, ft in self.U["structs"][t][1]] if k == "struct" else self.U["tuples"][t][1]
            self.eat("(")
            ps = []
            for i, ft in enumerate(fields):
                if i:
                    self.eat(",")
                ps.append(self.alt(ft))
            self.eat(")")
            return ("s", ps)
        if k != "enum":
            raise ValueError("variant-shaped counterexample %s at type %s" % (x, t))
        variants = dict(self.U["enums"][t][1])
        if x not in variants:
            raise ValueError("unknown variant %s of %s" % (x, t))
        self.eat()
        args = variants[x]
        ps = []
        if self.peek() == "(":
            self.eat("(")
            for i, a in enumerate(args):
                if i:
                    self.eat(",")
                ps.append(self.alt(a))
            self.eat(")")
        elif args:
            raise ValueError("variant %s printed without its %d arguments" % (x, len(args)))
        return ("c", x, ps)


# ----------------------------------------------------------------------------------------

def build_cases(U, tier, rng):
    """list of (form, type, [patterns]); form in match / iflet / let"""
    cases = []
    for t in U["scrutinees"]:
        P = pats(U, t, 2)
        if len(P) > 40:
            # keep the enumeration finite and stated: all depth-1 patterns, and depth-2 patterns whose
            # or-free arguments are taken from the first 40 in enumeration order plus a seeded sample
            extra = [q for q in P[40:] if not has_dup(q)]
            dups = [q for q in P[40:] if has_dup(q)]
            rng.shuffle(extra)
            P = P[:40] + dups[:24] + extra[:20 if tier == "quick" else 80]
        for p in P:
            cases.append(("match", t, [p]))
            cases.append(("iflet", t, [p]))
            cases.append(("let", t, [p]))
        pairs = list(itertools.product(P, P))
        if tier == "quick" and len(pairs) > 900:
            rng.shuffle(pairs)
            pairs = pairs[:900]
        for a, b in pairs:
            cases.append(("match", t, [a, b]))
        # the same constructs as an argument of a call inside a generic call (checked in the checker's synthesis
        # mode first): the analysis must not depend on where the construct stands
        for p in P:
            cases.append(("match@arg", t, [p]))
            cases.append(("iflet@arg", t, [p]))
            cases.append(("let@arg", t, [p]))
        for a, b in pairs[:150 if tier == "quick" else 1500]:
            cases.append(("match@arg", t, [a, b]))
        n3 = 250 if tier == "quick" else 4000
        for _ in range(n3):
            cases.append(("match", t, [rng.choice(P) for _ in range(3)]))
        if tier != "quick":
            for _ in range(1500):
                cases.append(("match", t, [rng.choice(P) for _ in range(4)]))
    return cases


def render_module(U, cases):
    lines = [HEADER + U["decls"] + "class Main {"]
    base = lines[0].count("\n") + 1
    line_of = {}
    for i, (form, t, ps) in enumerate(cases):
        src_t = (U["enums"].get(t) or U["structs"].get(t) or U["tuples"].get(t))[0]
        cnt = [i]
        form, _, place = form.partition("@")
        if form == "match":
            arms = ", ".join("%s -> %d" % (show(U, t, with_vars(p, cnt) if p[0] != "o" else p, None), k) for k, p in enumerate(ps))
            body = "match v { %s }" % arms
        elif form == "iflet":
            body = "if let %s = v { 0 } else { 1 }" % show(U, t, ps[0], None)
        else:
            body = "{ let %s = v; 0 }" % show(U, t, ps[0], None)
        if place == "arg":
            body = "Wr.id(Wr.inc(%s))" % body
        lines.append("  function f%d(v: %s): int = %s" % (i, src_t, body))
        line_of[base + len(lines) - 1] = i
    lines.append("}")
    return "\n".join(lines) + "\n", line_of


ERR_RE = re.compile(r"^Error -+ (\S+?):(\d+):(\d+)-(\d+):(\d+)$")


def parse_errors(text):
    """-> list of (line, message)"""
    out = []
    cur = None
    for ln in text.split("\n"):
        m = ERR_RE.match(ln.strip())
        if m:
            if cur:
                out.append(cur)
            cur = [int(m.group(2)), ""]
        elif cur is not None:
            cur[1] += ln + "\n"
    if cur:
        out.append(cur)
    return [(l, m.strip()) for l, m in out]


def run(res, tier, sc, drv):
    rng = random.Random(int(os.environ.get("VERIF_SEED", "0") or 0) + 7)
    total = 0
    nontrivial = set()
    stats = {"accepted_exhaustive": 0, "rejected_nonexhaustive": 0, "cex_checked": 0, "iflet_irrefutable": 0,
             "iflet_refutable": 0, "let_ok": 0, "let_rejected": 0}
    oq = 0
    ot = 0.0
    work = os.path.join(sc.root, "c07")
    os.makedirs(work, exist_ok=True)
    for U in UNIVERSES:
        cases = build_cases(U, tier, rng)
        orc = Oracle(U)
        CH = 1500
        for off in range(0, len(cases), CH):
            chunk = cases[off:off + CH]
            text, line_of = render_module(U, chunk)
            path = os.path.join(work, "T.sam")
            open(path, "w").write(text)
            p = drv.call(["typecheck", "T=" + path])
            errs = parse_errors(json.loads(p.stdout)["errors"])
            by_fn = {}
            for line, msg in errs:
                if line not in line_of:
                    raise Inconclusive("generator defect: error outside generated functions (line %d): %s" % (line, msg[:200]))
                by_fn.setdefault(line_of[line], []).append(msg)
            for i, (form, t, ps) in enumerate(chunk):
                total += 1
                form = form.partition("@")[0]
                msgs = by_fn.get(i, [])
                v = z3.Const("v", orc.sort(t))
                escapes = orc.check(*[z3.Not(orc.matches(t, p, v)) for p in ps])   # sat: some value escapes
                nonexh = [m for m in msgs if "not exhaustive" in m]
                irref = [m for m in msgs if "irrefutable" in m]
                other = [m for m in msgs if m not in nonexh and m not in irref]
                key = (U["name"], form, t, json.dumps(ps))
                nontrivial.add(key)
                src = lambda: {"universe": U["name"], "form": form, "type": t,
                               "source": [l for l in text.split("\n") if l.startswith("  function f%d(" % i)][0].strip(),
                               "decls": HEADER + U["decls"], "checker_messages": msgs,
                               "oracle": "some value escapes every pattern" if escapes else "every value is matched"}
                dup = any(has_dup(q) for q in ps)
                if dup and other:
                    # a repeated field may be refused outright (name already bound); nothing else to compare then
                    stats["duplicate_field_refused"] = stats.get("duplicate_field_refused", 0) + 1
                    continue
                if form in ("match", "let"):
                    rejected = bool(nonexh) or bool(other)
                    if rejected and not escapes:
                        res.violation("%s over %s rejected although every value is matched" % (form, t), src())
                        continue
                    if not rejected and escapes:
                        res.violation("%s over %s accepted although a value escapes every arm" % (form, t), src())
                        continue
                    if irref:
                        res.violation("%s reported an if-let diagnostic" % form, src())
                        continue
                    if rejected:
                        stats["rejected_nonexhaustive" if form == "match" else "let_rejected"] += 1
                        m = re.search(r"non-matching value: `(.*)`", nonexh[0]) if nonexh else None
                        if not m:
                            res.violation("%s over %s rejected without a counterexample" % (form, t), src())
                            continue
                        try:
                            c = CexParser(U, m.group(1)).parse(t)
                        except ValueError as e:
                            res.violation("counterexample `%s` is not a pattern of type %s (%s)" % (m.group(1), t, e), src())
                            continue
                        inhabited = orc.check(orc.matches(t, c, v))
                        overlaps = orc.check(orc.matches(t, c, v), z3.Or(*[orc.matches(t, p, v) for p in ps]))
                        stats["cex_checked"] += 1
                        if not inhabited or overlaps:
                            d = src()
                            d["counterexample"] = m.group(1)
                            res.violation("counterexample `%s` %s" % (m.group(1), "denotes no value" if not inhabited else "denotes a value that an arm matches"), d)
                            continue
                    else:
                        stats["accepted_exhaustive" if form == "match" else "let_ok"] += 1
                else:  # iflet: flagged useless exactly when it matches every value
                    if other or nonexh:
                        res.violation("if-let over %s produced an unexpected diagnostic" % t, src())
                        continue
                    if bool(irref) != (not escapes):
                        res.violation("if-let over %s %s" % (t, "flagged irrefutable although a value does not match" if irref else "not flagged although it matches every value"), src())
                        continue
                    stats["iflet_irrefutable" if irref else "iflet_refutable"] += 1
                if total % 997 == 0:
                    res.sample(src())
        oq += orc.queries
        ot += orc.time
    res.coverage.update({
        "explanation": "Real type_check_sources run on generated modules; per pattern list a z3 QF-datatype query decides over all "
                       "values (unbounded depth) whether a value escapes every arm, whether the reported counterexample is "
                       "inhabited and disjoint from every arm, and whether an if-let pattern matches everything.",
        "evaluations": total,
        "distinct_nontrivial": len(nontrivial),
        "rule": "per universe and scrutinee type: every pattern of constructor depth <= 2 (capped at 60/120 per type, cap seeded) as a "
                "single-arm match, if-let and destructuring let; every ordered pair (quick: <= 900 seeded pairs per type when more); "
                "seeded lists of 3 (and 4 in thorough); every single pattern and the first 150 (1500) pairs again as an argument of a call inside a generic call. distinct = distinct (universe, form, type, pattern list).",
        "exhaustive": False,
        "universes": [u["name"] for u in UNIVERSES],
        "oracle_queries": oq,
        "oracle_solver_s": round(ot, 1),
        "breakdown": stats,
    })
    res.assumptions += [
        "z3's decision procedure for quantifier-free algebraic datatypes",
        "pattern-to-datatype translation in checks/c07.py (variant = constructor, struct/tuple = single-constructor record)",
        "types are inhabited (every generated enum has a non-recursive variant)",
    ]
