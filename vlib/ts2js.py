#!/usr/bin/env python3
"""Strip the type annotations from the TypeScript samlang emits so that node can run it (node 20 here
cannot load the WASM-GC binary).  Used to replay witnesses concretely against the real compiler's output.
usage: ts2js.py in.ts out.js"""
import re
import sys

TY = r"(?:[A-Za-z_$][\w$]*(?:\[\])?|\((?:[^()]|\([^()]*\))*\) => [A-Za-z_$][\w$]*)"


def strip(src):
    out = []
    for line in src.split("\n"):
        if line.startswith("type "):
            continue
        m = re.match(r"^const (GLOBAL_STRING_\d+): _Str = \[0, (`.*`) as unknown as number\];$", line, re.S)
        if m:
            out.append("const %s = [0, %s];" % (m.group(1), m.group(2)))
            continue
        if " ? " in line and not line.startswith("const __"):
            raise SystemExit("ts2js: ternary in generated code; the stripper does not handle it: " + line[:120])
        line = re.sub(r" as unknown as " + TY, "", line)
        line = re.sub(r" as " + TY, "", line)
        line = re.sub(r"(?<=[\w$\])]): " + TY + r"(?= ?[=,){;]| \{)", "", line)
        out.append(line)
    return "\n".join(out)


if __name__ == "__main__":
    open(sys.argv[2], "w").write(strip(open(sys.argv[1]).read()))
