#!/usr/bin/env python3-vt
"""Developer tool: run registered checks against a seeded change WITHOUT touching /repo.

usage: run_seeded.py [--slot NAME] <seeded-id>[+<seeded-id>..]:<check>[,<check>..] ...

For each job a copy of /repo's working tree is made under /var/tmp/verif-mut/<seeded-id>/repo, the patch
/verif/seeded/<seeded-id>/patch.diff is applied to the copy, and `vcheck <check>` runs with VERIF_REPO pointing
at the copy and VERIF_OUT at /var/tmp/verif-mut/<seeded-id>/out (so the evidence of /repo is not overwritten).
The verdict is appended to /verif/seeded/<seeded-id>/detect.json.  The copy is removed afterwards."""
import json
import os
import shutil
import subprocess
import sys
import time

VERIF = "/verif"
BASE = "/var/tmp/verif-mut"


def main():
    args = sys.argv[1:]
    slot = None
    if args and args[0] == "--slot":
        slot = args[1]
        args = args[2:]
    for job in args:
        sid, checks = job.split(":")
        root = os.path.join(BASE, sid + ("-" + slot if slot else ""))
        repo = os.path.join(root, "repo")
        out = os.path.join(root, "out")
        shutil.rmtree(root, ignore_errors=True)
        os.makedirs(repo)
        os.makedirs(out)
        subprocess.run(["rsync", "-a", "--exclude", "target", "--exclude", ".git", "/repo/", repo + "/"], check=True)
        bad = False
        for one in sid.split("+"):
            p = subprocess.run(["patch", "-p1", "-i", os.path.join(VERIF, "seeded", one, "patch.diff")], cwd=repo, capture_output=True, text=True)
            if p.returncode != 0:
                print("%s: patch does not apply: %s" % (one, (p.stdout + p.stderr)[-400:]))
                bad = True
        if bad:
            continue
        for c in checks.split(","):
            env = dict(os.environ, VERIF_REPO=repo, VERIF_OUT=out)
            if slot:
                env["VERIF_SLOT"] = slot
            t0 = time.time()
            r = subprocess.run([os.path.join(VERIF, "vcheck"), c], env=env, capture_output=True, text=True)
            lines = [l for l in r.stdout.split("\n") if l.strip()]
            viol = [l for l in lines if l.startswith("VIOLATION")]
            rec = {"check": c, "exit": r.returncode, "violations": len(viol), "wall_s": round(time.time() - t0, 1),
                   "first": [l[:400] for l in lines if not l.startswith("VIOLATION")][:4], "when": time.strftime("%Y-%m-%d %H:%M")}
            print(sid, json.dumps(rec)[:900], flush=True)
            rec["violation_lines"] = [l[:300] for l in lines if l.startswith("  ")][:12]
            for one in sid.split("+"):
                dp = os.path.join(VERIF, "seeded", one, "detect.json")
                prev = json.load(open(dp)) if os.path.exists(dp) else []
                prev = [x for x in prev if x.get("check") != c] + [dict(rec, applied_together_with=sid) if "+" in sid else rec]
                json.dump(prev, open(dp, "w"), indent=1)
        shutil.rmtree(root, ignore_errors=True)


main()
