#!/usr/bin/env python3-vt
"""developer helper: run one C18 step function on an already dumped MIR.
usage: c18dev.py <mir_unopt.json> <Spec name> <step> <seconds> [lib]"""
import json
import sys

sys.path.insert(0, "/verif")
from checks import c18  # noqa: E402

spec, step = sys.argv[2], sys.argv[3]
sp = [s for s in c18.SPECS if s["name"] == spec][0]
op = [o for n, _, o in sp["steps"] if n == step][0]
r = c18._run_step((sys.argv[1], spec, step, int(sys.argv[4]), op, sp["lib"], int(sys.argv[5]) if len(sys.argv) > 5 else 0))
v = r.pop("violations", [])
r.pop("params", None), r.pop("ptypes", None)
print(json.dumps(r))
seen = set()
for x in v:
    if x["message"] not in seen:
        seen.add(x["message"])
        print("  VIOL", x["message"], [e.split("$")[-1] for e in x.get("entered", [])])
