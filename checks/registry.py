"""property id -> (evidence level, runner)"""
from vlib import ws
from vlib.common import Scratch
from checks import kernels


def _components(a, default):
    if a.only:
        return a.only.split(",")
    return default


def c02(res, tier, a):
    comps = _components(a, ["kernels"])
    with Scratch("C02") as sc:
        ws.inject(sc)
        drv = ws.Driver(ws.build_driver(sc))
        cov = {}
        if "kernels" in comps:
            k = kernels.Kernels(sc, drv, res, tier)
            k.load(ws)
            cov.update(k.run_all())
        res.coverage.update(cov)
        res.coverage.setdefault("programs", 0)
        res.coverage.setdefault("disagreements_checked", cov.get("kernel_obligations", 0))


def c07(res, tier, a):
    from checks import c07 as m
    with Scratch("C07") as sc:
        ws.inject(sc)
        drv = ws.Driver(ws.build_driver(sc))
        m.run(res, tier, sc, drv)


CHECKS = {
    "C07": ("other", c07),
    "C02": ("translation_validation", c02),
}
