//! JSON serialisation of samlang's MIR and LIR (all fields of these IRs are public).
//! Names are the encoded strings the compiler itself prints, so ids are stable across runs.
use crate::dump::json_str;
use samlang_ast::{hir::BinaryOperator, lir, mir};
use samlang_heap::{Heap, PStr};

pub fn op_name(op: BinaryOperator) -> &'static str {
  match op {
    BinaryOperator::MUL => "MUL",
    BinaryOperator::DIV => "DIV",
    BinaryOperator::MOD => "MOD",
    BinaryOperator::PLUS => "PLUS",
    BinaryOperator::MINUS => "MINUS",
    BinaryOperator::LAND => "LAND",
    BinaryOperator::LOR => "LOR",
    BinaryOperator::SHL => "SHL",
    BinaryOperator::SHR => "SHR",
    BinaryOperator::XOR => "XOR",
    BinaryOperator::LT => "LT",
    BinaryOperator::LE => "LE",
    BinaryOperator::GT => "GT",
    BinaryOperator::GE => "GE",
    BinaryOperator::EQ => "EQ",
    BinaryOperator::NE => "NE",
  }
}

fn list<T>(items: &[T], f: impl Fn(&T) -> String) -> String {
  format!("[{}]", items.iter().map(|x| f(x)).collect::<Vec<_>>().join(","))
}

fn s(p: &PStr, heap: &Heap) -> String {
  json_str(p.as_str(heap))
}

// ---------------------------------------------------------------------------------------- MIR

pub struct MirCx<'a> {
  pub heap: &'a Heap,
  pub table: &'a mir::SymbolTable,
}

impl<'a> MirCx<'a> {
  fn tn(&self, id: &mir::TypeNameId) -> String {
    json_str(&id.encoded_for_test(self.heap, self.table))
  }
  fn fname(&self, n: &mir::FunctionName) -> String {
    json_str(&n.encoded_for_test(self.heap, self.table))
  }
  fn ty(&self, t: &mir::Type) -> String {
    match t {
      mir::Type::Int32 => "\"int\"".to_string(),
      mir::Type::Int31 => "\"i31\"".to_string(),
      mir::Type::Id(id) => format!("{{\"id\":{}}}", self.tn(id)),
    }
  }
  fn fty(&self, t: &mir::FunctionType) -> String {
    format!("{{\"args\":{},\"ret\":{}}}", list(&t.argument_types, |x| self.ty(x)), self.ty(&t.return_type))
  }
  fn expr(&self, e: &mir::Expression) -> String {
    match e {
      mir::Expression::Int32Literal(i) => format!("{{\"i\":{}}}", i),
      mir::Expression::Int31Literal(i) => format!("{{\"i31\":{}}}", i),
      mir::Expression::StringName(n) => format!("{{\"s\":{}}}", s(n, self.heap)),
      mir::Expression::Variable(v) => format!("{{\"v\":{},\"t\":{}}}", s(&v.name, self.heap), self.ty(&v.type_)),
    }
  }
  fn stmts(&self, ss: &[mir::Statement]) -> String {
    list(ss, |x| self.stmt(x))
  }
  fn stmt(&self, st: &mir::Statement) -> String {
    let h = self.heap;
    match st {
      mir::Statement::IsPointer { name, pointer_type, operand } => format!(
        "{{\"k\":\"isptr\",\"n\":{},\"pt\":{},\"e\":{}}}",
        s(name, h),
        self.tn(pointer_type),
        self.expr(operand)
      ),
      mir::Statement::Not { name, operand } => format!("{{\"k\":\"not\",\"n\":{},\"e\":{}}}", s(name, h), self.expr(operand)),
      mir::Statement::Binary(b) => format!(
        "{{\"k\":\"bin\",\"n\":{},\"op\":\"{}\",\"e1\":{},\"e2\":{}}}",
        s(&b.name, h),
        op_name(b.operator),
        self.expr(&b.e1),
        self.expr(&b.e2)
      ),
      mir::Statement::IndexedAccess { name, type_, pointer_expression, index } => format!(
        "{{\"k\":\"idx\",\"n\":{},\"t\":{},\"e\":{},\"i\":{}}}",
        s(name, h),
        self.ty(type_),
        self.expr(pointer_expression),
        index
      ),
      mir::Statement::Call { callee, arguments, return_type, return_collector } => {
        let f = match callee {
          mir::Callee::FunctionName(f) => format!("{{\"fn\":{},\"ft\":{}}}", self.fname(&f.name), self.fty(&f.type_)),
          mir::Callee::Variable(v) => format!("{{\"var\":{{\"v\":{},\"t\":{}}}}}", s(&v.name, h), self.ty(&v.type_)),
        };
        format!(
          "{{\"k\":\"call\",\"f\":{},\"args\":{},\"rt\":{},\"rc\":{}}}",
          f,
          list(arguments, |x| self.expr(x)),
          self.ty(return_type),
          return_collector.as_ref().map(|c| s(c, h)).unwrap_or("null".to_string())
        )
      }
      mir::Statement::IfElse { condition, s1, s2, final_assignments } => format!(
        "{{\"k\":\"if\",\"c\":{},\"s1\":{},\"s2\":{},\"fa\":{}}}",
        self.expr(condition),
        self.stmts(s1),
        self.stmts(s2),
        list(final_assignments, |fa| format!(
          "{{\"n\":{},\"t\":{},\"e1\":{},\"e2\":{}}}",
          s(&fa.name, h),
          self.ty(&fa.type_),
          self.expr(&fa.e1),
          self.expr(&fa.e2)
        ))
      ),
      mir::Statement::SingleIf { condition, invert_condition, statements } => format!(
        "{{\"k\":\"sif\",\"c\":{},\"inv\":{},\"s\":{}}}",
        self.expr(condition),
        invert_condition,
        self.stmts(statements)
      ),
      mir::Statement::Break(e) => format!("{{\"k\":\"break\",\"e\":{}}}", self.expr(e)),
      mir::Statement::While { loop_variables, statements, break_collector } => format!(
        "{{\"k\":\"while\",\"lv\":{},\"s\":{},\"bc\":{}}}",
        list(loop_variables, |v| format!(
          "{{\"n\":{},\"t\":{},\"init\":{},\"loop\":{}}}",
          s(&v.name, h),
          self.ty(&v.type_),
          self.expr(&v.initial_value),
          self.expr(&v.loop_value)
        )),
        self.stmts(statements),
        break_collector
          .as_ref()
          .map(|v| format!("{{\"n\":{},\"t\":{}}}", s(&v.name, h), self.ty(&v.type_)))
          .unwrap_or("null".to_string())
      ),
      mir::Statement::Cast { name, type_, assigned_expression } => format!(
        "{{\"k\":\"cast\",\"n\":{},\"t\":{},\"e\":{}}}",
        s(name, h),
        self.ty(type_),
        self.expr(assigned_expression)
      ),
      mir::Statement::LateInitDeclaration { name, type_ } => {
        format!("{{\"k\":\"ldecl\",\"n\":{},\"t\":{}}}", s(name, h), self.ty(type_))
      }
      mir::Statement::LateInitAssignment { name, assigned_expression } => {
        format!("{{\"k\":\"lassign\",\"n\":{},\"e\":{}}}", s(name, h), self.expr(assigned_expression))
      }
      mir::Statement::StructInit { struct_variable_name, type_name, expression_list } => format!(
        "{{\"k\":\"struct\",\"n\":{},\"t\":{},\"es\":{}}}",
        s(struct_variable_name, h),
        self.tn(type_name),
        list(expression_list, |x| self.expr(x))
      ),
      mir::Statement::ClosureInit { closure_variable_name, closure_type_name, function_name, context } => format!(
        "{{\"k\":\"closure\",\"n\":{},\"t\":{},\"fn\":{},\"ft\":{},\"ctx\":{}}}",
        s(closure_variable_name, h),
        self.tn(closure_type_name),
        self.fname(&function_name.name),
        self.fty(&function_name.type_),
        self.expr(context)
      ),
    }
  }
  fn function(&self, f: &mir::Function) -> String {
    format!(
      "{{\"name\":{},\"params\":{},\"ptypes\":{},\"ret\":{},\"body\":{},\"retval\":{}}}",
      self.fname(&f.name),
      list(&f.parameters, |p| s(p, self.heap)),
      list(&f.type_.argument_types, |t| self.ty(t)),
      self.ty(&f.type_.return_type),
      self.stmts(&f.body),
      self.expr(&f.return_value)
    )
  }
}

pub fn mir_sources(heap: &Heap, src: &mir::Sources) -> String {
  let cx = MirCx { heap, table: &src.symbol_table };
  let types = list(&src.type_definitions, |d| {
    let parent = src
      .symbol_table
      .get_parent_type_if_subtype(d.name)
      .map(|p| cx.tn(&p))
      .unwrap_or("null".to_string());
    match &d.mappings {
      mir::TypeDefinitionMappings::Struct(ts) => {
        format!("{{\"name\":{},\"kind\":\"struct\",\"parent\":{},\"fields\":{}}}", cx.tn(&d.name), parent, list(ts, |t| cx.ty(t)))
      }
      mir::TypeDefinitionMappings::Enum(vs) => format!(
        "{{\"name\":{},\"kind\":\"enum\",\"parent\":{},\"variants\":{}}}",
        cx.tn(&d.name),
        parent,
        list(vs, |v| match v {
          mir::EnumTypeDefinition::Boxed(ts) => format!("{{\"k\":\"boxed\",\"fields\":{}}}", list(ts, |t| cx.ty(t))),
          mir::EnumTypeDefinition::Unboxed(t) => format!("{{\"k\":\"unboxed\",\"t\":{}}}", cx.tn(t)),
          mir::EnumTypeDefinition::Int31 => "{\"k\":\"int31\"}".to_string(),
        })
      ),
    }
  });
  format!(
    "{{\"ir\":\"mir\",\"globals\":{},\"closure_types\":{},\"types\":{},\"mains\":{},\"functions\":{}}}",
    list(&src.global_variables, |g| s(&g.0, heap)),
    list(&src.closure_types, |c| format!("{{\"name\":{},\"ft\":{}}}", cx.tn(&c.name), cx.fty(&c.function_type))),
    types,
    list(&src.main_function_names, |n| cx.fname(n)),
    list(&src.functions, |f| cx.function(f))
  )
}

// ---------------------------------------------------------------------------------------- LIR

pub struct LirCx<'a> {
  pub heap: &'a Heap,
  pub table: &'a mir::SymbolTable,
}

impl<'a> LirCx<'a> {
  fn tn(&self, id: &mir::TypeNameId) -> String {
    json_str(&id.encoded_for_test(self.heap, self.table))
  }
  fn fname(&self, n: &mir::FunctionName) -> String {
    json_str(&n.encoded_for_test(self.heap, self.table))
  }
  fn ty(&self, t: &lir::Type) -> String {
    match t {
      lir::Type::Int32 => "\"int\"".to_string(),
      lir::Type::Int31 => "\"i31\"".to_string(),
      lir::Type::AnyPointer => "\"any\"".to_string(),
      lir::Type::Id(id) => format!("{{\"id\":{}}}", self.tn(id)),
      lir::Type::Fn(f) => format!("{{\"fn\":{}}}", self.fty(f)),
    }
  }
  fn fty(&self, t: &lir::FunctionType) -> String {
    format!("{{\"args\":{},\"ret\":{}}}", list(&t.argument_types, |x| self.ty(x)), self.ty(&t.return_type))
  }
  fn expr(&self, e: &lir::Expression) -> String {
    match e {
      lir::Expression::Int32Literal(i) => format!("{{\"i\":{}}}", i),
      lir::Expression::Int31Literal(i) => format!("{{\"i31\":{}}}", i),
      lir::Expression::StringName(n) => format!("{{\"s\":{}}}", s(n, self.heap)),
      lir::Expression::Variable(n, t) => format!("{{\"v\":{},\"t\":{}}}", s(n, self.heap), self.ty(t)),
      lir::Expression::FnName(n, t) => format!("{{\"fn\":{},\"ft\":{}}}", self.fname(n), self.fty(t)),
    }
  }
  fn stmts(&self, ss: &[lir::Statement]) -> String {
    list(ss, |x| self.stmt(x))
  }
  fn stmt(&self, st: &lir::Statement) -> String {
    let h = self.heap;
    match st {
      lir::Statement::IsPointer { name, pointer_type, operand } => format!(
        "{{\"k\":\"isptr\",\"n\":{},\"pt\":{},\"e\":{}}}",
        s(name, h),
        self.tn(pointer_type),
        self.expr(operand)
      ),
      lir::Statement::Not { name, operand } => format!("{{\"k\":\"not\",\"n\":{},\"e\":{}}}", s(name, h), self.expr(operand)),
      lir::Statement::Binary { name, operator, e1, e2 } => format!(
        "{{\"k\":\"bin\",\"n\":{},\"op\":\"{}\",\"e1\":{},\"e2\":{}}}",
        s(name, h),
        op_name(*operator),
        self.expr(e1),
        self.expr(e2)
      ),
      lir::Statement::IndexedAccess { name, type_, pointer_expression, index } => format!(
        "{{\"k\":\"idx\",\"n\":{},\"t\":{},\"e\":{},\"i\":{}}}",
        s(name, h),
        self.ty(type_),
        self.expr(pointer_expression),
        index
      ),
      lir::Statement::Call { callee, arguments, return_type, return_collector } => format!(
        "{{\"k\":\"call\",\"f\":{{\"var\":{}}},\"args\":{},\"rt\":{},\"rc\":{}}}",
        self.expr(callee),
        list(arguments, |x| self.expr(x)),
        self.ty(return_type),
        return_collector.as_ref().map(|c| s(c, h)).unwrap_or("null".to_string())
      ),
      lir::Statement::IfElse { condition, s1, s2, final_assignments } => format!(
        "{{\"k\":\"if\",\"c\":{},\"s1\":{},\"s2\":{},\"fa\":{}}}",
        self.expr(condition),
        self.stmts(s1),
        self.stmts(s2),
        list(final_assignments, |(n, t, e1, e2)| format!(
          "{{\"n\":{},\"t\":{},\"e1\":{},\"e2\":{}}}",
          s(n, h),
          self.ty(t),
          self.expr(e1),
          self.expr(e2)
        ))
      ),
      lir::Statement::SingleIf { condition, invert_condition, statements } => format!(
        "{{\"k\":\"sif\",\"c\":{},\"inv\":{},\"s\":{}}}",
        self.expr(condition),
        invert_condition,
        self.stmts(statements)
      ),
      lir::Statement::Break(e) => format!("{{\"k\":\"break\",\"e\":{}}}", self.expr(e)),
      lir::Statement::While { loop_variables, statements, break_collector } => format!(
        "{{\"k\":\"while\",\"lv\":{},\"s\":{},\"bc\":{}}}",
        list(loop_variables, |v| format!(
          "{{\"n\":{},\"t\":{},\"init\":{},\"loop\":{}}}",
          s(&v.name, h),
          self.ty(&v.type_),
          self.expr(&v.initial_value),
          self.expr(&v.loop_value)
        )),
        self.stmts(statements),
        break_collector
          .as_ref()
          .map(|(n, t)| format!("{{\"n\":{},\"t\":{}}}", s(n, h), self.ty(t)))
          .unwrap_or("null".to_string())
      ),
      lir::Statement::Cast { name, type_, assigned_expression } => format!(
        "{{\"k\":\"cast\",\"n\":{},\"t\":{},\"e\":{}}}",
        s(name, h),
        self.ty(type_),
        self.expr(assigned_expression)
      ),
      lir::Statement::LateInitDeclaration { name, type_ } => {
        format!("{{\"k\":\"ldecl\",\"n\":{},\"t\":{}}}", s(name, h), self.ty(type_))
      }
      lir::Statement::LateInitAssignment { name, assigned_expression } => {
        format!("{{\"k\":\"lassign\",\"n\":{},\"e\":{}}}", s(name, h), self.expr(assigned_expression))
      }
      lir::Statement::StructInit { struct_variable_name, type_, expression_list } => format!(
        "{{\"k\":\"struct\",\"n\":{},\"t\":{},\"es\":{}}}",
        s(struct_variable_name, h),
        self.ty(type_),
        list(expression_list, |x| self.expr(x))
      ),
    }
  }
  fn function(&self, f: &lir::Function) -> String {
    format!(
      "{{\"name\":{},\"params\":{},\"ptypes\":{},\"ret\":{},\"body\":{},\"retval\":{}}}",
      self.fname(&f.name),
      list(&f.parameters, |p| s(p, self.heap)),
      list(&f.type_.argument_types, |t| self.ty(t)),
      self.ty(&f.type_.return_type),
      self.stmts(&f.body),
      self.expr(&f.return_value)
    )
  }
}

pub fn lir_sources(heap: &Heap, src: &lir::Sources) -> String {
  let cx = LirCx { heap, table: &src.symbol_table };
  format!(
    "{{\"ir\":\"lir\",\"globals\":{},\"types\":{},\"mains\":{},\"functions\":{}}}",
    list(&src.global_variables, |g| s(&g.0, heap)),
    list(&src.type_definitions, |d| format!(
      "{{\"name\":{},\"parent\":{},\"extensible\":{},\"fields\":{}}}",
      cx.tn(&d.name),
      d.parent_type.as_ref().map(|p| cx.tn(p)).unwrap_or("null".to_string()),
      d.is_extensible,
      list(&d.mappings, |t| cx.ty(t))
    )),
    list(&src.main_function_names, |n| cx.fname(n)),
    list(&src.functions, |f| cx.function(f))
  )
}

// ---------------------------------------------------------------------------------------- HIR

use samlang_ast::hir;

pub struct HirCx<'a> {
  pub heap: &'a Heap,
}

impl<'a> HirCx<'a> {
  /// function names use the MIR encoding (a leading underscore) so that builtins and entry points carry the same
  /// name in every IR
  fn fname(&self, n: &hir::FunctionName) -> String {
    json_str(&format!("_{}", n.pretty_print(self.heap)))
  }
  fn ty(&self, t: &hir::Type) -> String {
    match t {
      hir::Type::Int32 => "\"int\"".to_string(),
      hir::Type::Int31 => "\"i31\"".to_string(),
      hir::Type::Id(id) => format!("{{\"id\":{}}}", json_str(&id.pretty_print(self.heap))),
    }
  }
  fn expr(&self, e: &hir::Expression) -> String {
    match e {
      hir::Expression::IntLiteral(i) => format!("{{\"i\":{}}}", i),
      hir::Expression::Int31Zero => "{\"i31\":0}".to_string(),
      hir::Expression::StringName(n) => format!("{{\"s\":{}}}", s(n, self.heap)),
      hir::Expression::Variable(v) => format!("{{\"v\":{},\"t\":{}}}", s(&v.name, self.heap), self.ty(&v.type_)),
    }
  }
  fn stmts(&self, ss: &[hir::Statement]) -> String {
    list(ss, |x| self.stmt(x))
  }
  fn fas(&self, fas: &[(PStr, hir::Type, hir::Expression, hir::Expression)]) -> String {
    list(fas, |(n, t, e1, e2)| {
      format!("{{\"n\":{},\"t\":{},\"e1\":{},\"e2\":{}}}", s(n, self.heap), self.ty(t), self.expr(e1), self.expr(e2))
    })
  }
  fn stmt(&self, st: &hir::Statement) -> String {
    let h = self.heap;
    match st {
      hir::Statement::Not { name, operand } => format!("{{\"k\":\"not\",\"n\":{},\"e\":{}}}", s(name, h), self.expr(operand)),
      hir::Statement::Binary { name, operator, e1, e2 } => format!(
        "{{\"k\":\"bin\",\"n\":{},\"op\":\"{}\",\"e1\":{},\"e2\":{}}}",
        s(name, h),
        op_name(*operator),
        self.expr(e1),
        self.expr(e2)
      ),
      hir::Statement::IndexedAccess { name, type_, pointer_expression, index } => format!(
        "{{\"k\":\"idx\",\"n\":{},\"t\":{},\"e\":{},\"i\":{}}}",
        s(name, h),
        self.ty(type_),
        self.expr(pointer_expression),
        index
      ),
      hir::Statement::Call { callee, arguments, return_type, return_collector } => {
        let f = match callee {
          hir::Callee::FunctionName(f) => format!("{{\"fn\":{}}}", self.fname(&f.name)),
          hir::Callee::Variable(v) => format!("{{\"var\":{{\"v\":{},\"t\":{}}}}}", s(&v.name, h), self.ty(&v.type_)),
        };
        format!(
          "{{\"k\":\"call\",\"f\":{},\"args\":{},\"rt\":{},\"rc\":{}}}",
          f,
          list(arguments, |x| self.expr(x)),
          self.ty(return_type),
          return_collector.as_ref().map(|c| s(c, h)).unwrap_or("null".to_string())
        )
      }
      hir::Statement::ConditionalDestructure { test_expr, tag, bindings, s1, s2, final_assignments } => format!(
        "{{\"k\":\"cdes\",\"e\":{},\"tag\":{},\"b\":{},\"s1\":{},\"s2\":{},\"fa\":{}}}",
        self.expr(test_expr),
        tag,
        list(bindings, |b| match b {
          Some((n, t)) => format!("{{\"n\":{},\"t\":{}}}", s(n, h), self.ty(t)),
          None => "null".to_string(),
        }),
        self.stmts(s1),
        self.stmts(s2),
        self.fas(final_assignments)
      ),
      hir::Statement::IfElse { condition, s1, s2, final_assignments } => format!(
        "{{\"k\":\"if\",\"c\":{},\"s1\":{},\"s2\":{},\"fa\":{}}}",
        self.expr(condition),
        self.stmts(s1),
        self.stmts(s2),
        self.fas(final_assignments)
      ),
      hir::Statement::LateInitDeclaration { name, type_ } => {
        format!("{{\"k\":\"ldecl\",\"n\":{},\"t\":{}}}", s(name, h), self.ty(type_))
      }
      hir::Statement::LateInitAssignment { name, assigned_expression } => {
        format!("{{\"k\":\"lassign\",\"n\":{},\"e\":{}}}", s(name, h), self.expr(assigned_expression))
      }
      hir::Statement::StructInit { struct_variable_name, type_, expression_list } => format!(
        "{{\"k\":\"struct\",\"n\":{},\"t\":{},\"es\":{}}}",
        s(struct_variable_name, h),
        json_str(&type_.pretty_print(h)),
        list(expression_list, |x| self.expr(x))
      ),
      hir::Statement::EnumInit { enum_variable_name, enum_type, tag, associated_data_list } => format!(
        "{{\"k\":\"enum\",\"n\":{},\"t\":{},\"tag\":{},\"es\":{}}}",
        s(enum_variable_name, h),
        json_str(&enum_type.pretty_print(h)),
        tag,
        list(associated_data_list, |x| self.expr(x))
      ),
      hir::Statement::ClosureInit { closure_variable_name, closure_type, function_name, context } => format!(
        "{{\"k\":\"closure\",\"n\":{},\"t\":{},\"fn\":{},\"ctx\":{}}}",
        s(closure_variable_name, h),
        json_str(&closure_type.pretty_print(h)),
        self.fname(&function_name.name),
        self.expr(context)
      ),
    }
  }
}

pub fn hir_sources(heap: &Heap, src: &hir::Sources) -> String {
  let cx = HirCx { heap };
  format!(
    "{{\"ir\":\"hir\",\"globals\":{},\"types\":[],\"mains\":{},\"functions\":{}}}",
    list(&src.global_variables, |g| s(&g.0, heap)),
    list(&src.main_function_names, |n| cx.fname(n)),
    list(&src.functions, |f| format!(
      "{{\"name\":{},\"params\":{},\"ptypes\":{},\"ret\":{},\"body\":{},\"retval\":{}}}",
      cx.fname(&f.name),
      list(&f.parameters, |p| s(p, heap)),
      list(&f.type_.argument_types, |t| cx.ty(t)),
      cx.ty(&f.type_.return_type),
      cx.stmts(&f.body),
      cx.expr(&f.return_value)
    ))
  )
}
